//! Anywhere-preemption tier for C18 / C08 (Rust side): the same kind of disjoint-instance programs as the
//! baton tier, but executed under Miri, whose scheduler is seeded (`-Zmiri-seed`, one seed = one exactly
//! repeatable interleaving, preemption possible at every basic block) and whose data-race detector judges
//! the "no data race" clauses. Workload seed and thread count come from argv (never from the environment).
//!
//! argv: <workload-seed> <threads>
//! exit 0: every thread's results equal its results when run alone; exit 1 (panic): not isolated.

use blake3::hazmat::HasherExt;
use std::sync::{Arc, Barrier};

static HAMMER: std::sync::atomic::AtomicBool = std::sync::atomic::AtomicBool::new(false);

fn splitmix(x: &mut u64) -> u64 {
    *x = x.wrapping_add(0x9E37_79B9_7F4A_7C15);
    let mut z = *x;
    z = (z ^ (z >> 30)).wrapping_mul(0xBF58_476D_1CE4_E5B9);
    z = (z ^ (z >> 27)).wrapping_mul(0x94D0_49BB_1331_11EB);
    z ^ (z >> 31)
}

fn bytes(seed: u64, n: usize) -> Vec<u8> {
    let mut s = seed;
    (0..n).map(|_| splitmix(&mut s) as u8).collect()
}

/// a small program over the thread's own instances; returns every result it observed
/// only repeated derivations and keyed hashes under a few long contexts / keys: short operations, so that
/// whatever the library remembers between calls is exercised many times per interleaving
fn hammer(seed: u64) -> Vec<Vec<u8>> {
    let mut s = seed;
    let mut out = Vec::new();
    let ctxs: Vec<String> = (0..2).map(|k| bytes(seed ^ (k as u64 + 77), 66 + (splitmix(&mut s) % 30) as usize).iter().map(|b| (b'a' + (b % 26)) as char).collect()).collect();
    let key: [u8; 32] = bytes(seed ^ 5, 32).try_into().unwrap();
    for k in 0..28 {
        let m = bytes(splitmix(&mut s), (splitmix(&mut s) % 20) as usize);
        if k % 7 == 6 {
            out.push(blake3::keyed_hash(&key, &m).as_bytes().to_vec());
        } else {
            out.push(blake3::derive_key(&ctxs[(k / 2) % 2], &m).to_vec());
        }
    }
    out
}

fn program(seed: u64) -> Vec<Vec<u8>> {
    if HAMMER.load(std::sync::atomic::Ordering::Relaxed) {
        return hammer(seed);
    }
    let mut s = seed;
    let mut out = Vec::new();
    let steps = 6 + (splitmix(&mut s) % 5) as usize;
    // two long contexts (> 64 bytes) and one short one per thread, all different between threads
    let ctxs: Vec<String> = (0..3)
        .map(|k| {
            let len = if k == 2 { 10 } else { 70 + (splitmix(&mut s) % 40) as usize };
            bytes(seed ^ (k as u64 + 1), len).iter().map(|b| (b'a' + (b % 26)) as char).collect()
        })
        .collect();
    // phase 1: repeated derivations under the same few long contexts (what a key-derivation service does);
    // consecutive repeats matter: anything remembered between calls is exercised on both its paths
    let reps = 10 + (splitmix(&mut s) % 8) as usize;
    for k in 0..reps {
        let c = &ctxs[(k / 2) % 2];
        let m = bytes(splitmix(&mut s), (splitmix(&mut s) % 40) as usize);
        out.push(blake3::derive_key(c, &m).to_vec());
    }
    // one-shot calls over several chunks (the subtree code with its scratch arrays)
    for _ in 0..2 {
        let m = bytes(splitmix(&mut s), 2049 + (splitmix(&mut s) % 1100) as usize);
        let key: [u8; 32] = bytes(splitmix(&mut s), 32).try_into().unwrap();
        out.push(blake3::keyed_hash(&key, &m).as_bytes().to_vec());
    }
    for _ in 0..steps {
        match splitmix(&mut s) % 6 {
            0 | 1 => {
                let c = &ctxs[(splitmix(&mut s) % 3) as usize];
                let m = bytes(splitmix(&mut s), (splitmix(&mut s) % 80) as usize);
                out.push(blake3::derive_key(c, &m).to_vec());
            }
            2 => {
                let c = &ctxs[(splitmix(&mut s) % 3) as usize];
                let mut h = blake3::Hasher::new_derive_key(c);
                h.update(&bytes(splitmix(&mut s), 100));
                out.push(h.finalize().as_bytes().to_vec());
            }
            3 => {
                let key: [u8; 32] = bytes(splitmix(&mut s), 32).try_into().unwrap();
                let m = bytes(splitmix(&mut s), (splitmix(&mut s) % 200) as usize);
                out.push(blake3::keyed_hash(&key, &m).as_bytes().to_vec());
            }
            4 => {
                let mut h = blake3::Hasher::new();
                let m = bytes(splitmix(&mut s), 1025 + (splitmix(&mut s) % 300) as usize);
                let cut = (splitmix(&mut s) % m.len() as u64) as usize;
                h.update(&m[..cut]);
                h.update(&m[cut..]);
                let mut x = vec![0u8; 70 + (splitmix(&mut s) % 100) as usize];
                let mut r = h.finalize_xof();
                r.set_position(splitmix(&mut s) % 200);
                r.fill(&mut x);
                out.push(x);
            }
            _ => {
                // update_reader: the copy loop's staging buffer must be the thread's own
                let m = bytes(splitmix(&mut s), 300 + (splitmix(&mut s) % 900) as usize);
                let mut h = blake3::Hasher::new();
                #[cfg(feature = "std")]
                h.update_reader(&m[..]).unwrap();
                #[cfg(not(feature = "std"))]
                h.update(&m);
                let cv = blake3::Hasher::new().update(&m).finalize_non_root();
                out.push(h.finalize().as_bytes().to_vec());
                out.push(cv.to_vec());
            }
        }
    }
    out
}

/// C08 (Rust): both halves of every split really run concurrently (right half on its own thread);
/// Miri's scheduler decides the interleaving, its race detector the "no data race" clause.
#[cfg(feature = "std")]
fn join_hook(left: blake3::verif::JoinHalf<'_>, right: blake3::verif::JoinHalf<'_>) {
    std::thread::scope(|s| {
        s.spawn(move || right());
        left();
    });
}

#[cfg(not(feature = "std"))]
fn join_mode(_wseed: u64) {
    panic!("join mode needs the hooks (std build)");
}
#[cfg(not(feature = "std"))]
fn intrinsics_mode(_wseed: u64) {
    panic!("intrinsics mode needs the hooks (std build)");
}

#[cfg(feature = "std")]
fn join_mode(wseed: u64) {
    blake3::verif::set_join_hook(Some(join_hook));
    let mut s = wseed;
    // under Miri the platform is Portable (degree 1): a 5-chunk input already has 4 splits
    let chunks = 3 + (splitmix(&mut s) % 4) as usize;
    let tail = (splitmix(&mut s) % 1024) as usize;
    let prefix = [0usize, 1, 700, 1024][(splitmix(&mut s) % 4) as usize];
    let m = bytes(wseed, prefix + chunks * 1024 + tail);
    let key: [u8; 32] = bytes(wseed ^ 9, 32).try_into().unwrap();
    let mut a = blake3::Hasher::new_keyed(&key);
    let mut b = blake3::Hasher::new_keyed(&key);
    a.update(&m[..prefix]);
    b.update(&m[..prefix]);
    a.update(&m[prefix..]);
    b.verif_update_with_join(&m[prefix..]);
    assert_eq!(a.count(), b.count(), "NOT-DETERMINISTIC count after concurrent join, workload_seed={wseed}");
    assert_eq!(a.finalize(), b.finalize(), "NOT-DETERMINISTIC hash after concurrent join, workload_seed={wseed}");
    a.update(b"continuation");
    b.update(b"continuation");
    let (mut xa, mut xb) = ([0u8; 131], [0u8; 131]);
    a.finalize_xof().fill(&mut xa);
    b.finalize_xof().fill(&mut xb);
    assert_eq!(xa, xb, "NOT-DETERMINISTIC continuation after concurrent join, workload_seed={wseed}");
    println!("ok join workload_seed={} chunks={} prefix={}", wseed, chunks, prefix);
}

/// what one thread does with its clone of an XOF reader or hasher: a fixed, seeded sequence of reads / updates
fn clone_reader_program(mut r: blake3::OutputReader, seed: u64) -> Vec<Vec<u8>> {
    let mut s = seed;
    let mut out = Vec::new();
    for _ in 0..(5 + splitmix(&mut s) % 4) {
        match splitmix(&mut s) % 5 {
            0 => r.set_position(splitmix(&mut s) % 400),
            1 => r.set_position(r.position() & !63),
            _ => {}
        }
        let mut x = vec![0u8; 1 + (splitmix(&mut s) % 90) as usize];
        r.fill(&mut x);
        out.push(x);
    }
    out
}

fn clone_hasher_program(mut h: blake3::Hasher, seed: u64) -> Vec<Vec<u8>> {
    let mut s = seed;
    let mut out = Vec::new();
    for _ in 0..3 {
        h.update(&bytes(splitmix(&mut s), (splitmix(&mut s) % 1500) as usize));
        out.push(h.finalize().as_bytes().to_vec());
    }
    out
}

/// C18: clones are independent instances. One reader (hasher) with a history is cloned, every thread gets a clone
/// and uses it in its own way; each thread's results must equal those of the same program run alone on a clone.
fn clones_mode(wseed: u64, threads: usize) {
    let mut s = wseed;
    let m = bytes(wseed, 100 + (splitmix(&mut s) % 2000) as usize);
    let key: [u8; 32] = bytes(wseed ^ 5, 32).try_into().unwrap();
    let mut h = blake3::Hasher::new_keyed(&key);
    h.update(&m);
    let mut r = h.finalize_xof();
    // history in the object before it is cloned: a read that stops inside a block, sometimes a seek
    let mut x = vec![0u8; 1 + (splitmix(&mut s) % 100) as usize];
    r.fill(&mut x);
    if splitmix(&mut s) % 3 == 0 {
        r.set_position(splitmix(&mut s) % 300);
        r.fill(&mut x[..1]);
    }
    let seeds: Vec<u64> = (0..threads).map(|t| wseed.wrapping_mul(0x9E37_79B9).wrapping_add(t as u64 * 104729)).collect();
    let solo: Vec<(Vec<Vec<u8>>, Vec<Vec<u8>>)> = seeds.iter().map(|sd| (clone_reader_program(r.clone(), *sd), clone_hasher_program(h.clone(), *sd))).collect();
    let barrier = Arc::new(Barrier::new(threads));
    let handles: Vec<_> = seeds
        .iter()
        .map(|sd| {
            let (sd, b, rc, hc) = (*sd, barrier.clone(), r.clone(), h.clone());
            std::thread::spawn(move || {
                b.wait();
                (clone_reader_program(rc, sd), clone_hasher_program(hc, sd))
            })
        })
        .collect();
    // the original keeps being used too
    let mine = clone_reader_program(r.clone(), wseed);
    for (t, hd) in handles.into_iter().enumerate() {
        let got = hd.join().expect("thread panicked");
        if got != solo[t] {
            panic!("NOT-ISOLATED workload_seed={} thread={}: results of a clone used on its own thread differ from the solo run", wseed, t);
        }
    }
    if mine != clone_reader_program(r.clone(), wseed) {
        panic!("NOT-ISOLATED workload_seed={} original reader disturbed by its clones", wseed);
    }
    println!("ok clones workload_seed={} threads={}", wseed, threads);
}

/// Native stress (not under Miri): the same disjoint-instance idea on real threads at full speed, for what neither
/// the baton scheduler (no yield point inside) nor Miri (no SIMD FFI, few interleavings per second) reaches: process-wide
/// scratch or caches touched for a few instructions inside the kernels' wrappers. Each thread owns its key, contexts
/// and inputs; the expected results are computed first, by the main thread alone.
fn stress_mode(wseed: u64, threads: usize, rounds: usize) {
    let mk = |t: usize| -> (Vec<Vec<u8>>, [u8; 32], String) {
        let mut s = wseed.wrapping_mul(0x9E37_79B9).wrapping_add(t as u64 * 15485863);
        let sizes = [0usize, 31, 64, 65, 1024, 1025, 3000, 8 * 1024 + 1, 40 * 1024, 70 * 1024 + 3, 300 * 1024 + 17];
        let inputs: Vec<Vec<u8>> = sizes.iter().map(|n| bytes(splitmix(&mut s), *n)).collect();
        let key: [u8; 32] = bytes(splitmix(&mut s), 32).try_into().unwrap();
        let ctx: String = bytes(splitmix(&mut s), 24).iter().map(|b| (b'a' + (b % 26)) as char).collect();
        (inputs, key, ctx)
    };
    let run = |inputs: &[Vec<u8>], key: &[u8; 32], ctx: &str| -> Vec<Vec<u8>> {
        let mut out = Vec::new();
        for m in inputs {
            out.push(blake3::keyed_hash(key, m).as_bytes().to_vec());
            out.push(blake3::hash(m).as_bytes().to_vec());
            out.push(blake3::derive_key(ctx, m).to_vec());
            let mut h = blake3::Hasher::new_keyed(key);
            let cut = m.len() / 3;
            h.update(&m[..cut]);
            h.update(&m[cut..]);
            let mut x = [0u8; 100];
            h.finalize_xof().fill(&mut x);
            out.push(x.to_vec());
        }
        out
    };
    // path adapters (feature mmap): thread 0 hashes a file whose path is longer than PATH_MAX (the call fails or
    // succeeds, but always the same way), the others hash small files through RELATIVE paths; nothing a hasher does
    // with its path may move the ground under another one (the working directory is process-wide)
    #[cfg(feature = "mmap")]
    let paths: Vec<std::path::PathBuf> = {
        let dir = std::env::temp_dir().join(format!("b3miri.stress.{}", std::process::id()));
        let _ = std::fs::remove_dir_all(&dir);
        std::fs::create_dir_all(&dir).expect("scratch dir");
        std::env::set_current_dir(&dir).expect("chdir");
        let mut v = Vec::new();
        // nested directories, created hop by hop (each relative to the previous one)
        let mut deep = dir.clone();
        let comp = "d".repeat(200);
        let mut rel_ok = true;
        for _ in 0..22 {
            deep = deep.join(&comp);
        }
        {
            let mut cur = dir.clone();
            for _ in 0..22 {
                cur = cur.join(&comp);
                if std::fs::create_dir(&cur).is_err() {
                    // beyond PATH_MAX mkdir needs hops as well: go there step by step
                    rel_ok = false;
                    break;
                }
            }
            if !rel_ok {
                std::env::set_current_dir(&dir).unwrap();
                for _ in 0..22 {
                    let _ = std::fs::create_dir(&comp);
                    if std::env::set_current_dir(&comp).is_err() {
                        break;
                    }
                }
                let _ = std::fs::write("f.bin", bytes(wseed ^ 77, 20000));
                std::env::set_current_dir(&dir).unwrap();
            } else {
                let _ = std::fs::write(deep.join("f.bin"), bytes(wseed ^ 77, 20000));
            }
        }
        v.push(deep.join("f.bin"));
        for t in 1..threads {
            let name = format!("rel{t}.bin");
            std::fs::write(&name, bytes(wseed ^ t as u64, 17000 + t * 13)).expect("write");
            v.push(std::path::PathBuf::from(name));
        }
        v
    };
    #[cfg(feature = "mmap")]
    let path_run = |p: &std::path::Path| -> Vec<u8> {
        let mut h = blake3::Hasher::new();
        match h.update_mmap(p) {
            Ok(_) => h.finalize().as_bytes().to_vec(),
            Err(e) => format!("error kind {:?}", e.kind()).into_bytes(),
        }
    };
    let jobs: Vec<(Vec<Vec<u8>>, [u8; 32], String)> = (0..threads).map(mk).collect();
    #[allow(unused_mut)]
    let mut solo: Vec<Vec<Vec<u8>>> = jobs.iter().map(|(i, k, c)| run(i, k, c)).collect();
    #[cfg(feature = "mmap")]
    for (t, s) in solo.iter_mut().enumerate() {
        s.push(path_run(&paths[t]));
    }
    let barrier = Arc::new(Barrier::new(threads));
    let bad = Arc::new(std::sync::atomic::AtomicUsize::new(usize::MAX));
    std::thread::scope(|sc| {
        for (t, (inputs, key, ctx)) in jobs.iter().enumerate() {
            let (b, bad, want) = (barrier.clone(), bad.clone(), &solo[t]);
            #[cfg(feature = "mmap")]
            let (paths, path_run) = (&paths, &path_run);
            sc.spawn(move || {
                b.wait();
                for _ in 0..rounds {
                    #[allow(unused_mut)]
                    let mut got = run(inputs, key, ctx);
                    #[cfg(feature = "mmap")]
                    {
                        // (many path operations per round: the window is a few system calls wide)
                        let mut last = Vec::new();
                        for _ in 0..40 {
                            last = path_run(&paths[t]);
                            if last != want[want.len() - 1] {
                                break;
                            }
                        }
                        got.push(last);
                    }
                    if got != *want {
                        bad.store(t, std::sync::atomic::Ordering::Relaxed);
                        return;
                    }
                    if bad.load(std::sync::atomic::Ordering::Relaxed) != usize::MAX {
                        return;
                    }
                }
            });
        }
    });
    #[cfg(feature = "mmap")]
    {
        let dir = std::env::temp_dir().join(format!("b3miri.stress.{}", std::process::id()));
        let _ = std::env::set_current_dir(std::env::temp_dir());
        let _ = std::fs::remove_dir_all(&dir);
    }
    let t = bad.load(std::sync::atomic::Ordering::Relaxed);
    if t != usize::MAX {
        panic!("NOT-ISOLATED workload_seed={} thread={}: a result computed while other threads were hashing differs from the solo run", wseed, t);
    }
    println!("ok stress workload_seed={} threads={} rounds={}", wseed, threads, rounds);
}

/// C07 (unsafe Rust intrinsics): the pure build's SSE2 / SSE4.1 / AVX2 kernels interpreted by Miri, which checks
/// every vector load and store for bounds, alignment requirements and initialisation. The level is forced through
/// the detect() hook (it sits before the cfg(miri) short-circuit). Results must also equal the portable level.
#[cfg(feature = "std")]
fn intrinsics_mode(wseed: u64) {
    use blake3::platform::Platform;
    let mut s = wseed;
    let levels: Vec<(&str, Option<Platform>)> = vec![("sse2", Some(Platform::SSE2)), ("sse41", Some(Platform::SSE41)), ("avx2", Some(Platform::AVX2))]; // detection is compiled out under Miri: name the variants
    // lengths that exercise full SIMD batches and every remainder path of hash_many, plus partial chunks
    let chunks = [1usize, 2, 3, 4, 5, 7, 8, 9, 11, 13][(splitmix(&mut s) % 10) as usize];
    let tail = [0usize, 1, 63, 64, 65, 1023][(splitmix(&mut s) % 6) as usize];
    let m = bytes(wseed, chunks * 1024 + tail);
    let key: [u8; 32] = bytes(wseed ^ 3, 32).try_into().unwrap();
    blake3::verif::set_platform(Some(Platform::portable()));
    let want = {
        let mut h = blake3::Hasher::new_keyed(&key);
        h.update(&m);
        let mut x = [0u8; 200];
        let mut r = h.finalize_xof();
        r.set_position(61);
        r.fill(&mut x);
        (h.finalize(), x)
    };
    let mut ran = 0;
    for (name, p) in levels {
        let Some(p) = p else { continue };
        blake3::verif::set_platform(Some(p));
        let mut h = blake3::Hasher::new_keyed(&key);
        let cut = (splitmix(&mut s) % (m.len() as u64 + 1)) as usize;
        h.update(&m[..cut]);
        h.update(&m[cut..]);
        let mut x = [0u8; 200];
        let mut r = h.finalize_xof();
        r.set_position(61);
        r.fill(&mut x);
        assert!(h.finalize() == want.0 && x == want.1, "LEVEL-DIVERGENCE level={name} workload_seed={wseed}");
        assert_eq!(blake3::keyed_hash(&key, &m), want.0, "LEVEL-DIVERGENCE one-shot level={name} workload_seed={wseed}");
        ran += 1;
    }
    blake3::verif::set_platform(None);
    println!("ok intrinsics workload_seed={} chunks={} tail={} levels_run={}", wseed, chunks, tail, ran);
}

fn main() {
    let args: Vec<String> = std::env::args().collect();
    if args.get(3).map(|s| s.as_str()) == Some("intrinsics") {
        intrinsics_mode(args.get(1).and_then(|s| s.parse().ok()).unwrap_or(1));
        return;
    }
    let wseed: u64 = args.get(1).and_then(|s| s.parse().ok()).unwrap_or(1);
    let threads: usize = args.get(2).and_then(|s| s.parse().ok()).unwrap_or(3);
    if args.get(3).map(|s| s.as_str()) == Some("join") {
        join_mode(wseed);
        return;
    }
    if args.get(3).map(|s| s.as_str()) == Some("stress") {
        stress_mode(wseed, threads.max(2), args.get(4).and_then(|s| s.parse().ok()).unwrap_or(60));
        return;
    }
    if args.get(3).map(|s| s.as_str()) == Some("clones") {
        clones_mode(wseed, threads.max(2));
        return;
    }
    if args.get(3).map(|s| s.as_str()) == Some("hammer") {
        HAMMER.store(true, std::sync::atomic::Ordering::Relaxed);
    }
    let seeds: Vec<u64> = (0..threads).map(|t| wseed.wrapping_mul(0x9E37_79B9).wrapping_add(t as u64 * 7919)).collect();
    // Solo oracle first, on the main thread, one program at a time
    let solo: Vec<Vec<Vec<u8>>> = seeds.iter().map(|s| program(*s)).collect();
    let barrier = Arc::new(Barrier::new(threads));
    let handles: Vec<_> = seeds
        .iter()
        .map(|s| {
            let s = *s;
            let b = barrier.clone();
            std::thread::spawn(move || {
                b.wait();
                program(s)
            })
        })
        .collect();
    for (t, h) in handles.into_iter().enumerate() {
        let got = h.join().expect("thread panicked");
        if got != solo[t] {
            let i = got.iter().zip(solo[t].iter()).position(|(a, b)| a != b).unwrap_or(0);
            panic!("NOT-ISOLATED workload_seed={} thread={} result#{} differs from the solo run", wseed, t, i);
        }
    }
    println!("ok workload_seed={} threads={}", wseed, threads);
}
