//! Offline stub: the real `wild` crate is `std::env::args_os()` on Unix (globbing is a Windows feature).
pub fn args_os() -> std::env::ArgsOs {
    std::env::args_os()
}
