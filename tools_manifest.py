#!/usr/bin/env python3
"""Regenerates /verif/MANIFEST.json from the table below (keeps it valid by construction)."""
import json, subprocess, sys
CLAIMED = {
 "C11": dict(level="fault_enumeration", tech="deterministic simulation: scripted reader seam (short reads, EINTR, hard errors, early EOF) with per-call-index fault enumeration; seeded plans, shrinking, exact replay",
   text="Seeded simulation of update_reader / io::copy / Write over a scripted reader: per base plan every fault kind is enumerated at every call index 0..48, plus random fault scripts; file half compares update_mmap, update_mmap_rayon and update_reader(File) on scratch files around the 16 KiB threshold. Sampling over sources and scripts, enumeration over fault positions: evidence, not proof.",
   note="Trusted: the crate's one-shot functions as oracle for 'hash of exactly the yielded bytes' (as the property words it), std::io::copy, the kernel VFS for scratch files. A lean build (blake3 with rayon and mmap but without zeroize and serde, debug assertions and overflow checks off: the production-like configuration) re-runs 30% of the plans.", ref="DESIGN.md §3 C11"),
 "C02": dict(level="exploration", tech="deterministic simulation: seeded delivery scripts over the update/Write/Read/rayon/mmap/Join seams, caller tasks interleaved by a baton scheduler at every kernel dispatch; shrinking and exact replay",
   text="Seeded search over histories {absorb via any adapter, count, finalize, finalize_xof, clone, move between tasks, concurrent finalize of one &Hasher} on 1-3 hashers in 1-4 simulated caller tasks; after every call count() and every output are compared with the crate's one-shot function (and a single-update twin beyond 32 bytes) on exactly the bytes that instance absorbed. Sampling: evidence, not proof.",
   note="Trusted: the crate's one-shot functions as oracle (the property's own wording); baton scheduler interleaves only at hook sites (kernel dispatch, reader calls, op boundaries, join splits). A lean build (blake3 with rayon and mmap but without zeroize and serde, debug assertions and overflow checks off: the production-like configuration) re-runs 30% of the plans.", ref="DESIGN.md §3 C02"),
 "C03": dict(level="exploration", tech="deterministic simulation: seeded read/seek histories with injected failing seeks against a sparse SpecModel stream; readers cloned and moved between simulated tasks; shrinking and exact replay",
   text="Seeded search over OutputReader histories (fill, Read adapters, set_position, seek incl. seeks that must fail, clone, hand-over between tasks) at positions across the whole 2^64-1 range with spikes at block counter 2^32 and the stream end; every byte is compared with the SpecModel root compression for its block index.",
   note="Trusted: SpecModel (independent implementation of the paper pinned by frozen official vectors). Forward seeks beyond 2^64-1 are outside the property and never generated. A lean build (blake3 with rayon and mmap but without zeroize and serde, debug assertions and overflow checks off: the production-like configuration) re-runs 30% of the plans.", ref="DESIGN.md §3 C03"),
 "C10": dict(level="exploration", tech="deterministic simulation: hasher pool with client cancellation at arbitrary operations (crash points), reset and reuse, lockstep fresh twin as reference model; shrinking and exact replay",
   text="Seeded search over pool histories: clients run random prefixes (offsets, any adapter, finalize variants, clones) and are cancelled at an arbitrary operation; after reset() the next client's operations run in lockstep on a freshly constructed twin and must agree in count and every result; no in-domain operation may panic. Found and fixed: reset() kept a hazmat input offset.",
   note="Trusted: fresh-twin comparison + crate one-shot functions; SpecModel for non-root chaining values. A lean build (blake3 with rayon and mmap but without zeroize and serde, debug assertions and overflow checks off: the production-like configuration) re-runs 30% of the plans.", ref="DESIGN.md §3 C10"),
 "C04": dict(level="exploration", tech="deterministic simulation: exact replay of the same seeded plans under every forced SIMD level (detect() hook) and every build flavour; per-operation result digests must coincide; shrinking and exact replay",
   text="The C02/C03/C08/C11 plan families are re-executed, same seeds, once per SIMD level (Portable, SSE2, SSE4.1, AVX2, AVX-512, real detection) and the per-operation digests compared; a mismatch is shrunk like any violation and the replay names the two configurations. Sampling over plans; complete over the levels this CPU and build can run.",
   note="Trusted: hook H1 selects what stock detection would select (cross-checked against no_* feature builds in the thorough tier). MSVC .asm, NEON, wasm32 kernels are outside the claim.", ref="DESIGN.md §3 C04"),
 "C08": dict(level="exploration", tech="deterministic simulation: scripted Join hook decides left-first/right-first/concurrent per recursive split; concurrent halves are child tasks interleaved by a seeded baton scheduler at every kernel dispatch; real rayon pools as a second engine; shrinking and exact replay",
   text="Seeded search over split-order assignments and interleavings of update_with_join (the generic function update_rayon instantiates) plus real rayon pools of width 1,2,4,16 and update_mmap_rayon; state after the call must equal what serial update leaves (count, finalize, XOF, continuation).",
   note="Interleaving granularity is the kernel dispatch (hook H2). The C entry point blake3_hasher_update_tbb is covered by the C06 check's TBB-seam family. Auxiliary parts: a lean build (blake3 without zeroize/serde, no debug assertions) re-runs 30% of the plans; a ThreadSanitizer tier runs the C library on real threads over disjoint instances (a monitor on seeded programs, not a controlled interleaving).", ref="DESIGN.md §3 C08"),
 "C09": dict(level="exploration", tech="deterministic simulation: simulated cluster of subtree workers and a coordinator over an in-memory transport with worker crash/restart, duplicated and reordered chaining-value messages; giant virtual offsets; SpecModel oracle; shrinking and exact replay",
   text="Seeded search over tree decompositions, worker assignment, per-shard update fragmentation and injected faults (crash mid-shard and recomputation, duplicate/reordered delivery); every shard CV and merge is compared with SpecModel and the root with the crate's one-shot function; the length helpers are compared with their closed forms on walks from virtual lengths up to 2^64-1. Found and fixed: left_subtree_len(u64::MAX) overflowed.",
   note="Trusted: SpecModel; real bytes are hashed only in windows <= 64 KiB at giant offsets. A lean build (blake3 with rayon and mmap but without zeroize and serde, debug assertions and overflow checks off: the production-like configuration) re-runs 30% of the plans. Keys, contexts and chaining values are passed from reused per-thread buffers after a decoy call at the same address (results must not depend on where an argument lives).", ref="DESIGN.md §3 C09"),
 "C16": dict(level="exploration", tech="deterministic simulation: the API surface of every step of a seeded history is a knob (RustCrypto traits vs inherent), lockstep twin after resetting variants; legacy guts API as cluster workers; shrinking and exact replay",
   text="Seeded search over histories issued through Update/Digest/Mac/FixedOutput(Reset)/ExtendableOutput(Reset)/XofReader/Reset/KeyInit with the inherent-API semantics as oracle (including the state left behind by *_reset, observed through the continuation and a fresh twin); guts::ChunkState/parent_cv trees compared node by node with SpecModel.",
   note="Trusted: inherent API semantics (decided by C02/C03/C10), SpecModel. A lean build (blake3 with rayon and mmap but without zeroize and serde, debug assertions and overflow checks off: the production-like configuration) re-runs 30% of the plans.", ref="DESIGN.md §3 C16"),
 "C17": dict(level="exploration", tech="deterministic simulation with self-composition: the same seeded plan is replayed exactly with all secrets swapped; Debug text and post-zeroize memory snapshots at plan-chosen probe instants must not depend on the secrets; shrinking and exact replay",
   text="Seeded search over histories with probe instants (format Debug / snapshot-zeroize-snapshot of the live object); in-run oracle (no secret word rendered, no 8 non-zero bytes survive) plus self-composition (byte-identical text, no 8-byte window of memory differing between the two secret assignments).",
   note="Relies on padding < 8 bytes in these types and on reading object memory through raw pointers in a release build. A lean build (blake3 with rayon and mmap but without zeroize and serde, debug assertions and overflow checks off: the production-like configuration) re-runs 30% of the plans.", ref="DESIGN.md §3 C17"),
 "C18": dict(level="exploration", tech="deterministic simulation: 2-6 simulated caller tasks on disjoint instances, each at its own forced SIMD level, interleaved by a seeded baton scheduler at every kernel dispatch/detect/reader call; Solo oracle (each task re-run alone); one process per search shard; shrinking and exact replay",
   text="Seeded search over interleavings of complete operation sequences on disjoint Hasher/OutputReader instances and one-shot calls; every operation must return the bytes it returns when its task runs alone. The Rust detection cache cannot be put under the scheduler; the first-use family (fresh process, tasks on real threads released together) and the Miri tier (seeded scheduler, preemption at any basic block; a 40-interleaving batch in quick, ~220 in thorough, including clones of one reader/hasher handed to several threads) look below the dispatch granularity. Shared-file family: independent hashers on several tasks hash the same path (update_mmap_rayon on a one-thread pool adopted by the calling task).",
   note="Interleaving granularity is the hook sites; C instances join in the C06/C18-C families. Auxiliary parts: lean build; Miri batches (std and no_std builds of the crate); a native stress batch and (thorough) a ThreadSanitizer tier on real threads, which are monitors on seeded programs rather than controlled interleavings.", ref="DESIGN.md §3 C18"),
 "C06": dict(level="exploration", tech="deterministic simulation: the C library as a node driven through blake3_hasher_* by seeded histories (update fragmentation, finalize/finalize_seek/reset/struct-copy interleavings, per-run CPU feature mask, scripted TBB join seam); SpecModel and the Rust crate as twin oracles; shrinking and exact replay",
   text="Seeded search over C API histories on both kernel flavours (assembly and C intrinsics, compiled from the working tree) under random subsets of the detected feature mask; every output is compared with SpecModel and with the Rust crate on the same history; finalize must leave the hasher fields unchanged, reset must restore the initial fields, the two derive-key initialisers must agree, zero-length calls are no-ops, canaries guard every output buffer.",
   note="Trusted: SpecModel; BLAKE3_TESTING exposes g_cpu_features; oneTBB is absent, its contract is played by the simulator's join seam. Windows/MSVC/NEON builds are outside the claim.", ref="DESIGN.md §3 C06"),
 "C12": dict(level="exploration", tech="deterministic simulation at process level: the real b3sum binary as a node in a per-run sandbox directory; seeded flag swarm and file sets; faults injected between runs (file deleted/modified/truncated/replaced by directory, checkfile line damage, CRLF, truncation, invalid UTF-8, missing checkfile); line-by-line reference model of --check; shrinking and exact replay",
   text="Seeded search over b3sum invocations: stdout digest bytes must equal the library's extended output S[seek..seek+length] in the documented line format for every accepted flag combination; --check's exit status must be 0 iff the line-by-line model says every entry is OK, every later entry must still be reported, a panic is a violation. Found and fixed (with C13): parse_check_line panicked on a 64-byte non-ASCII hash field, which aborted the rest of the checkfile.",
   note="b3sum is built from the repository source through a shadow manifest (wild stubbed as std::env::args_os, clap without wrap_help). Trusted: library output as decided by C02/C03; the format model in sim/src/cli.rs.", ref="DESIGN.md §3 C12"),
 "C13": dict(level="exploration", tech="deterministic simulation: producer (b3sum) and consumer (b3sum --check) coupled through a stored checkfile that the simulator damages; path swarm with engineered colliding pairs; in-process enumeration of every single-character / byte-overwrite / truncation mutation of real records against the real parse_check_line; shrinking and exact replay",
   text="End-to-end round trips through real b3sum for path swarms rich in the characters that matter, plus in-process sweeps: for each path the printed line must parse back to exactly that path and hash (or be rejected if unrepresentable), and every single-edit mutation must either be rejected or parse to what the documented format says - never panic. Found and fixed: --tag lines with a double space in the path did not round-trip; a 64-byte hash field ending in a multi-byte character panicked the parser.",
   note="'For arbitrary text' is a statement about a pure function: the simulator only reaches the neighbourhood of real records that storage damage produces (single edits, byte-preserving overwrites, truncations).", ref="DESIGN.md §3 C13"),
 "C07": dict(level="exploration", tech="deterministic simulation of the memory environment: seeded plans place every caller-visible buffer flush against PROT_NONE pages (GuardAlloc), call every kernel flavour through register-sentinel trampolines (SysV and Win64), fatal signals are captured as crash records and replayed in child processes; shrinking and exact replay",
   text="Seeded search over direct kernel calls (unix asm, windows-gnu asm via a Win64 trampoline, C intrinsics, portable C, the crate's own kernels) and over C / Rust API histories, with inputs, input-pointer arrays, keys, blocks, outputs and hasher objects guard-placed; monitors: SIGSEGV/SIGBUS on guard pages, canaries, callee-saved registers / rsp / DF at four stack alignments; the same C API histories are replayed against an ASan+UBSan build of the C library, and (thorough) the unsafe Rust intrinsics run under Miri. One genuine finding is listed (not repaired): the AVX2/AVX-512 assembly tail paths of hash_many read 16-48 bytes past the end of their first (and third) input.",
   note="Monitors observe seeded, replayable executions; reads inside the caller's own larger allocation are invisible unless the guard page is adjacent; UB without a memory/register/signal trace is not seen. MSVC .asm, NEON, wasm32 are outside the claim. Auxiliary parts: the pure build, an ASan/UBSan replay of the C API histories on builds with none/some/all BLAKE3_NO_* switches, sizes above 2^32 (one finalize / one update), and in thorough the Rust intrinsics under Miri.", ref="DESIGN.md §3 C07"),
}
NA = {
 "C01": "one-shot hash/keyed_hash/derive_key are pure functions of their arguments: no history, schedule, clock or fault exists for a simulator to control; input search alone would be fuzzing, a different technique family",
 "C05": "each SIMD kernel is a pure function of its argument tuple; kernel-vs-portable equality has no schedule, fault or history dimension (API-reachable kernel calls are exercised incidentally under C04, without a claim)",
 "C14": "Hash conversions, equality and serde are stateless value mappings with no I/O, sharing or failure mode to simulate",
 "C15": "reference_impl is a pure function of (input, splits) and test_vectors.json is static data; nothing for a simulator to schedule or break",
}
ALL = ["C%02d" % i for i in range(1, 19)]
PENDING = "check under construction in this round (see DESIGN.md §3); not claimed until its quick command is registered"
def main():
    hooks = subprocess.run(["git","-C","/repo","log","--format=%H %s","125cb2c..HEAD"],capture_output=True,text=True).stdout.strip().splitlines()
    hook_commits=[l.split()[0] for l in hooks if "verif hook" in l]
    m = {
      "version": 1,
      "setup_cmd": "./check setup",
      "hooks": {
        "guard": "--cfg blake3_team_blake3_verif (Rust), -DBLAKE3_TEAM_BLAKE3_VERIF (C)",
        "enable": "RUSTFLAGS='--cfg blake3_team_blake3_verif' via /verif/sim/.cargo/config.toml; the harness depends on blake3 by path=/repo so every check rebuilds the working tree",
        "baseline_off_cmd": "cd /repo && cargo test --workspace --no-fail-fast --offline",
        "source_commits": hook_commits,
        "add_only": True,
      },
      "engines": [
        {"name":"b3sim","path":"/verif/sim","serves_properties":sorted(CLAIMED),"kind_free_text":"deterministic simulator: plan(seed)->exec(plan) with baton scheduler over real threads, scripted Read/Write/Join seams, fault injection, delta-debugging shrinker, JSON replay files"},
      ],
      "checks": [],
      "not_applicable": [],
      "notes": "Technique family: deterministic simulation with fault injection. VERIF_SEED (default 1) selects the sample; replay files under /verif/replays re-execute exactly with ./check replay <file>.",
    }
    for pid in ALL:
        if pid in CLAIMED:
            c = CLAIMED[pid]
            m["checks"].append({
              "property_id": pid,
              "quick_cmd": f"./check {pid} quick",
              "thorough_cmd": f"./check {pid} thorough",
              "evidence_file": f"/verif/evidence/{pid}.json",
              "replay_cmd_template": "./check replay {path}",
              "engine": "b3sim",
              "level_claimed": {"category": c["level"], "text": c["text"], "design_ref": c["ref"]},
              "level_note": c["note"],
              "technique": c["tech"],
            })
        else:
            m["not_applicable"].append({"property_id": pid, "reason": NA.get(pid, PENDING)})
    json.dump(m, open("/verif/MANIFEST.json","w"), indent=1)
    print("claimed:", sorted(CLAIMED), "not_applicable:", [x["property_id"] for x in m["not_applicable"]])
main()
