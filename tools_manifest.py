#!/usr/bin/env python3
"""Regenerates /verif/MANIFEST.json from the table below (keeps it valid by construction)."""
import json, subprocess, sys
CLAIMED = {
 "C11": dict(level="fault_enumeration", tech="deterministic simulation: scripted reader seam (short reads, EINTR, hard errors, early EOF) with per-call-index fault enumeration; seeded plans, shrinking, exact replay",
   text="Seeded simulation of update_reader / io::copy / Write over a scripted reader: per base plan every fault kind is enumerated at every call index 0..48, plus random fault scripts; file half compares update_mmap, update_mmap_rayon and update_reader(File) on scratch files around the 16 KiB threshold. Sampling over sources and scripts, enumeration over fault positions: evidence, not proof.",
   note="Trusted: the crate's one-shot functions as oracle for 'hash of exactly the yielded bytes' (as the property words it), std::io::copy, the kernel VFS for scratch files.", ref="DESIGN.md §3 C11"),
 "C02": dict(level="exploration", tech="deterministic simulation: seeded delivery scripts over the update/Write/Read/rayon/mmap/Join seams, caller tasks interleaved by a baton scheduler at every kernel dispatch; shrinking and exact replay",
   text="Seeded search over histories {absorb via any adapter, count, finalize, finalize_xof, clone, move between tasks, concurrent finalize of one &Hasher} on 1-3 hashers in 1-4 simulated caller tasks; after every call count() and every output are compared with the crate's one-shot function (and a single-update twin beyond 32 bytes) on exactly the bytes that instance absorbed. Sampling: evidence, not proof.",
   note="Trusted: the crate's one-shot functions as oracle (the property's own wording); baton scheduler interleaves only at hook sites (kernel dispatch, reader calls, op boundaries, join splits).", ref="DESIGN.md §3 C02"),
 "C03": dict(level="exploration", tech="deterministic simulation: seeded read/seek histories with injected failing seeks against a sparse SpecModel stream; readers cloned and moved between simulated tasks; shrinking and exact replay",
   text="Seeded search over OutputReader histories (fill, Read adapters, set_position, seek incl. seeks that must fail, clone, hand-over between tasks) at positions across the whole 2^64-1 range with spikes at block counter 2^32 and the stream end; every byte is compared with the SpecModel root compression for its block index.",
   note="Trusted: SpecModel (independent implementation of the paper pinned by frozen official vectors). Forward seeks beyond 2^64-1 are outside the property and never generated.", ref="DESIGN.md §3 C03"),
 "C10": dict(level="exploration", tech="deterministic simulation: hasher pool with client cancellation at arbitrary operations (crash points), reset and reuse, lockstep fresh twin as reference model; shrinking and exact replay",
   text="Seeded search over pool histories: clients run random prefixes (offsets, any adapter, finalize variants, clones) and are cancelled at an arbitrary operation; after reset() the next client's operations run in lockstep on a freshly constructed twin and must agree in count and every result; no in-domain operation may panic. Found and fixed: reset() kept a hazmat input offset.",
   note="Trusted: fresh-twin comparison + crate one-shot functions; SpecModel for non-root chaining values.", ref="DESIGN.md §3 C10"),
}
NA = {
 "C01": "one-shot hash/keyed_hash/derive_key are pure functions of their arguments: no history, schedule, clock or fault exists for a simulator to control; input search alone would be fuzzing, a different technique family",
 "C05": "each SIMD kernel is a pure function of its argument tuple; kernel-vs-portable equality has no schedule, fault or history dimension (API-reachable kernel calls are exercised incidentally under C04, without a claim)",
 "C14": "Hash conversions, equality and serde are stateless value mappings with no I/O, sharing or failure mode to simulate",
 "C15": "reference_impl is a pure function of (input, splits) and test_vectors.json is static data; nothing for a simulator to schedule or break",
}
ALL = ["C%02d" % i for i in range(1, 19)]
PENDING = "check under construction in this round (see DESIGN.md §3); not claimed until its quick command is registered"
def main():
    hooks = subprocess.run(["git","-C","/repo","log","--format=%H %s","125cb2c..HEAD"],capture_output=True,text=True).stdout.strip().splitlines()
    hook_commits=[l.split()[0] for l in hooks if "verif hook" in l]
    m = {
      "version": 1,
      "setup_cmd": "./check setup",
      "hooks": {
        "guard": "--cfg blake3_team_blake3_verif (Rust), -DBLAKE3_TEAM_BLAKE3_VERIF (C)",
        "enable": "RUSTFLAGS='--cfg blake3_team_blake3_verif' via /verif/sim/.cargo/config.toml; the harness depends on blake3 by path=/repo so every check rebuilds the working tree",
        "baseline_off_cmd": "cd /repo && cargo test --workspace --no-fail-fast --offline",
        "source_commits": hook_commits,
        "add_only": True,
      },
      "engines": [
        {"name":"b3sim","path":"/verif/sim","serves_properties":sorted(CLAIMED),"kind_free_text":"deterministic simulator: plan(seed)->exec(plan) with baton scheduler over real threads, scripted Read/Write/Join seams, fault injection, delta-debugging shrinker, JSON replay files"},
      ],
      "checks": [],
      "not_applicable": [],
      "notes": "Technique family: deterministic simulation with fault injection. VERIF_SEED (default 1) selects the sample; replay files under /verif/replays re-execute exactly with ./check replay <file>.",
    }
    for pid in ALL:
        if pid in CLAIMED:
            c = CLAIMED[pid]
            m["checks"].append({
              "property_id": pid,
              "quick_cmd": f"./check {pid} quick",
              "thorough_cmd": f"./check {pid} thorough",
              "evidence_file": f"/verif/evidence/{pid}.json",
              "replay_cmd_template": "./check replay {path}",
              "engine": "b3sim",
              "level_claimed": {"category": c["level"], "text": c["text"], "design_ref": c["ref"]},
              "level_note": c["note"],
              "technique": c["tech"],
            })
        else:
            m["not_applicable"].append({"property_id": pid, "reason": NA.get(pid, PENDING)})
    json.dump(m, open("/verif/MANIFEST.json","w"), indent=1)
    print("claimed:", sorted(CLAIMED), "not_applicable:", [x["property_id"] for x in m["not_applicable"]])
main()
