#!/bin/bash
# usage: tools/try_mutant.sh <patch> <prop> [tier]
# Sensitivity test only: applies a patch to /repo, runs the check, reverts /repo, restores the evidence file,
# and moves any replay it produced to /tmp/mutant_replays. Exit status = the check's exit status.
set -u
patch="$(realpath "$1")"; prop="$2"; tier="${3:-quick}"
if ! git -C /repo diff --quiet; then echo "/repo has uncommitted changes"; exit 2; fi
git -C /repo apply "$patch" || { echo "patch does not apply"; exit 2; }
cp /verif/evidence/$prop.json /tmp/ev_backup_$prop.json 2>/dev/null
before=$(ls /verif/replays 2>/dev/null | sort)
( cd /verif && ./check "$prop" "$tier" 2>&1 | tail -${TAIL:-6} ; exit ${PIPESTATUS[0]} ); rc=$?
git -C /repo checkout -- .
[ -f /tmp/ev_backup_$prop.json ] && mv /tmp/ev_backup_$prop.json /verif/evidence/$prop.json
mkdir -p /tmp/mutant_replays
for f in $(ls /verif/replays 2>/dev/null | sort); do echo "$before" | grep -qx "$f" || mv /verif/replays/$f /tmp/mutant_replays/; done
echo "== mutant $(basename $patch) vs $prop $tier: exit $rc"
exit $rc
