#!/bin/bash
# usage: tools/check_against.sh <repo-dir> <prop> [tier] [extra b3sim args]
# Runs the b3sim check for <prop> against another checkout of the repository (a scratch worktree with a
# mutant applied) without touching /repo or /verif: the harness sources are copied, the path dependency
# and the C / b3sum source locations are pointed at <repo-dir>, outputs go to <work>/out.
set -u
repo="$(realpath "$1")"; prop="$2"; tier="${3:-quick}"; shift 3 2>/dev/null
work="/tmp/simcopy.$(basename "$repo")"
mkdir -p "$work/out/replays" "$work/out/evidence"
rsync -a --delete --exclude target /verif/sim/ "$work/sim/"
rsync -a --delete --exclude target /verif/shadow/ "$work/shadow/"
cp /verif/known_findings.json "$work/out/" 2>/dev/null
sed -i "s|path = \"/repo\"|path = \"$repo\"|" "$work/sim/Cargo.toml" "$work/shadow/b3sum/Cargo.toml"
sed -i "s|path = \"/repo/b3sum/src/main.rs\"|path = \"$repo/b3sum/src/main.rs\"|" "$work/shadow/b3sum/Cargo.toml"
export CARGO_NET_OFFLINE=true VERIF_REPO="$repo" VERIF_DIR="$work/out"
( cd "$work/sim" && cargo build --offline --release --target-dir "$work/target" >"$work/build.log" 2>&1 ) || { echo "BUILD FAILED (see $work/build.log)"; tail -5 "$work/build.log"; exit 2; }
if [ "$prop" = C12 ] || [ "$prop" = C13 ]; then
  ( cd "$work/shadow/b3sum" && cargo build --offline --release --target-dir "$work/target_b3sum" >"$work/build_b3sum.log" 2>&1 ) || { echo "B3SUM BUILD FAILED"; tail -5 "$work/build_b3sum.log"; exit 2; }
  export B3SUM_BIN="$work/target_b3sum/release/b3sum"
fi
if [ "$prop" = C04 ]; then
  # three build flavours, per-part evidence, cross-flavour digest comparison (as ./check C04 does)
  rm -rf "$work/out/evidence/.parts"; rc=0
  "$work/target/release/b3sim" run --prop C04 --tier "$tier" --part default "$@" || rc=$?
  [ $rc -ge 2 ] && exit 2
  for fl in pure prefer_intrinsics; do
    ( cd "$work/sim" && cargo build --offline --release --features $fl --target-dir "$work/target_$fl" >"$work/build_$fl.log" 2>&1 ) || { echo "BUILD FAILED ($fl)"; tail -5 "$work/build_$fl.log"; exit 2; }
    r=0; "$work/target_$fl/release/b3sim" run --prop C04 --tier "$tier" --part $fl --scale 0.5 "$@" || r=$?
    [ $r -ge 2 ] && exit 2
    [ $r -eq 1 ] && rc=1
  done
  r=0; "$work/target/release/b3sim" merge-parts --prop C04 --parts default,pure,prefer_intrinsics --tier "$tier" || r=$?
  [ $r -ge 2 ] && exit 2
  [ $r -eq 1 ] && rc=1
  exit $rc
fi
if [ "$prop" = C08 ]; then
  # as ./check C08: baton search, then the ThreadSanitizer tier on the C library
  rc=0; "$work/target/release/b3sim" run --prop C08 --tier "$tier" --part sim "$@" || rc=$?
  [ $rc -ne 0 ] && exit $rc
  ( cd "$work/sim" && CARGO_PROFILE_RELEASE_DEBUG_ASSERTIONS=false CARGO_PROFILE_RELEASE_OVERFLOW_CHECKS=false cargo build --offline --release --no-default-features --features par --target-dir "$work/target_lean" >"$work/build_lean.log" 2>&1 ) || { echo "BUILD FAILED (lean)"; tail -5 "$work/build_lean.log"; exit 2; }
  "$work/target_lean/release/b3sim" run --prop C08 --tier "$tier" --part lean --scale 0.3 "$@" || exit $?
  python3 /verif/tools/tsan_tier.py C08 "${VERIF_SEED:-1}" "$tier" --repo "$repo"
  exit $?
fi
if [ "$prop" = C07 ]; then
  # as ./check C07: guard-page families on the default build, then the ASan/UBSan replay tier (the pure part is skipped here)
  rc=0; "$work/target/release/b3sim" run --prop C07 --tier "$tier" --part default "$@" || rc=$?
  [ $rc -ne 0 ] && exit $rc
  python3 /verif/tools/asan_tier.py "${VERIF_SEED:-1}" "$tier" "$work/target/release/b3sim" --repo "$repo"
  exit $?
fi
if [ "$prop" = C18 ] && [ "$tier" = quick ]; then
  # as ./check C18 quick: baton search, then the small Miri batch
  rc=0; "$work/target/release/b3sim" run --prop C18 --tier quick --part sim "$@" || rc=$?
  [ $rc -ne 0 ] && exit $rc
  ( cd "$work/sim" && CARGO_PROFILE_RELEASE_DEBUG_ASSERTIONS=false CARGO_PROFILE_RELEASE_OVERFLOW_CHECKS=false cargo build --offline --release --no-default-features --features par --target-dir "$work/target_lean" >"$work/build_lean.log" 2>&1 ) || { echo "BUILD FAILED (lean)"; tail -5 "$work/build_lean.log"; exit 2; }
  "$work/target_lean/release/b3sim" run --prop C18 --tier quick --part lean --scale 0.3 "$@" || exit $?
  python3 /verif/tools/miri_tier.py C18 "${VERIF_SEED:-1}" --tier quick --repo "$repo"; rc=$?
  rm -rf "/tmp/miri_tier.$(basename "$repo")"
  exit $rc
fi
case "$prop" in
  C02|C03|C09|C10|C11|C16|C17)
    # as ./check: default build, then the lean build (blake3 without rayon, mmap, zeroize, serde) on a third of the runs
    rc=0; "$work/target/release/b3sim" run --prop "$prop" --tier "$tier" --part default "$@" || rc=$?
    [ $rc -ne 0 ] && exit $rc
    ( cd "$work/sim" && CARGO_PROFILE_RELEASE_DEBUG_ASSERTIONS=false CARGO_PROFILE_RELEASE_OVERFLOW_CHECKS=false cargo build --offline --release --no-default-features --features par --target-dir "$work/target_lean" >"$work/build_lean.log" 2>&1 ) || { echo "BUILD FAILED (lean)"; tail -5 "$work/build_lean.log"; exit 2; }
    "$work/target_lean/release/b3sim" run --prop "$prop" --tier "$tier" --part lean --scale 0.3 "$@"
    exit $?
    ;;
esac
"$work/target/release/b3sim" run --prop "$prop" --tier "$tier" "$@"
