#!/usr/bin/env python3
"""Anywhere-preemption tier under Miri (thorough tier of C18 and C08).

usage: miri_tier.py <prop> <verif_seed> [--repo DIR]
Runs /verif/miri_tier (blake3 from the repository working tree) under `cargo +nightly miri run` with
-Zmiri-many-seeds: one Miri seed is one exactly repeatable interleaving (preemption at any basic block) and Miri's
data-race detector judges the "no data race" clauses. Writes evidence/.parts/<prop>.miri.json; on a failure writes a
replay file (engine "miri": miri seed, preemption rate, program arguments) and prints the VIOLATION line.
Exit: 0 held, 1 violation, 2 harness error (Miri missing, build failure)."""
import json, os, re, subprocess, sys, time, shutil
prop = sys.argv[1]; vseed = int(sys.argv[2])
verif = os.environ.get("VERIF_DIR", "/verif")
repo = "/repo"
if "--repo" in sys.argv: repo = sys.argv[sys.argv.index("--repo") + 1]
tier = "thorough"
if "--tier" in sys.argv: tier = sys.argv[sys.argv.index("--tier") + 1]
src = os.path.join(os.path.dirname(os.path.dirname(os.path.abspath(__file__))), "miri_tier")
work = src
if repo != "/repo":
    work = "/tmp/miri_tier." + os.path.basename(repo)
    shutil.rmtree(work, ignore_errors=True); shutil.copytree(src, work, ignore=shutil.ignore_patterns("target"))
    t = open(work + "/Cargo.toml").read().replace('path = "/repo"', f'path = "{repo}"'); open(work + "/Cargo.toml", "w").write(t)
NOSTD = ["--no-default-features", "--target-dir", "target/nostd"]
# (mode args, preemption rate, number of miri seeds[, extra cargo arguments])
if prop == "C18":
    batches = [(["%d" % (vseed * 11 + 1), "3"], "0.05", 16), (["%d" % (vseed * 11 + 2), "2"], "0.01", 32), (["%d" % (vseed * 11 + 3), "2"], "0.003", 32), (["%d" % (vseed * 11 + 4), "2", "hammer"], "0.003", 32),
               (["%d" % (vseed * 11 + 5), "3", "clones"], "0.05", 48), (["%d" % (vseed * 11 + 6), "4", "clones"], "0.05", 32), (["%d" % (vseed * 11 + 7), "3", "clones"], "0.01", 32),
               # blake3 built as a no_std crate (a third feature set; no hooks, no detection cache, no update_reader)
               (["%d" % (vseed * 11 + 8), "3"], "0.05", 48, NOSTD), (["%d" % (vseed * 11 + 9), "3", "clones"], "0.05", 16, NOSTD)]
    if tier == "quick":
        # every-change budget: clones of one reader / hasher used on three threads, and the disjoint-instance programs
        batches = [(["%d" % (vseed * 11 + 5), "3", "clones"], "0.05", 32), (["%d" % (vseed * 11 + 1), "3"], "0.05", 8), (["%d" % (vseed * 11 + 8), "3"], "0.05", 4, NOSTD)]
elif prop == "C08":
    batches = [(["%d" % (vseed * 13 + k), "0", "join"], r, 12) for k, r in [(1, "0.05"), (2, "0.01"), (3, "0.003"), (4, "0.01")]]
elif prop == "C07":
    batches = []
else:
    print("miri tier serves C18, C08 and C07"); sys.exit(2)
if shutil.which("cargo") is None: sys.exit(2)
t0 = time.time(); total = 0; viol = None; samples = []
if prop == "C07":
    # the unsafe Rust intrinsics (pure build) interpreted by Miri: bounds / alignment / initialisation of every vector
    # load and store; single-threaded, so the workload seed is the only choice
    from concurrent.futures import ThreadPoolExecutor
    env = dict(os.environ, CARGO_NET_OFFLINE="true", MIRIFLAGS="",
               RUSTFLAGS="--cfg blake3_team_blake3_verif -C target-feature=+sse2,+ssse3,+sse4.1,+avx,+avx2")
    base = ["cargo", "+nightly", "miri", "run", "--offline", "--features", "pure", "--target-dir", "target/intr", "--"]
    first = subprocess.run(base + [str(vseed * 100), "0", "intrinsics"], cwd=work, env=env, capture_output=True, text=True)  # builds once
    outs = [first]
    n = int(os.environ.get("MIRI_C07_SEEDS", "24"))
    def one(k):
        return subprocess.run(base + [str(vseed * 100 + k), "0", "intrinsics"], cwd=work, env=env, capture_output=True, text=True)
    with ThreadPoolExecutor(max_workers=8) as ex:
        outs += list(ex.map(one, range(1, n)))
    for k, p in enumerate(outs):
        out = p.stdout + p.stderr
        if p.returncode == 0 and "ok intrinsics" in out:
            total += 1
            if "levels_run=3" not in out:
                samples.append({"note": "a level was not interpreted", "workload_seed": vseed * 100 + k})
            continue
        if "unsupported operation" in out and "can't call foreign function" in out or "not supported by Miri" in out:
            samples.append({"note": "level not covered: an intrinsic is not supported by this Miri", "workload_seed": vseed * 100 + k})
            continue
        if "could not compile" in out:
            sys.stderr.write(out[-3000:]); print("HARNESS ERROR: the Miri tier could not build"); sys.exit(2)
        detail = next((l for l in out.splitlines() if "LEVEL-DIVERGENCE" in l or "Undefined Behavior" in l), "Miri reported an error")
        viol = {"property": prop, "engine": "miri", "miri_seed": 0, "preemption_rate": "0", "program_args": [str(vseed * 100 + k), "0", "intrinsics"],
                "violation": {"property": prop, "class": "sanitizer", "detail": detail.strip()},
                "replay_cmd": f"cd {src} && RUSTFLAGS='--cfg blake3_team_blake3_verif -C target-feature=+sse2,+ssse3,+sse4.1,+avx,+avx2' cargo +nightly miri run --offline --features pure --target-dir target/intr -- {vseed * 100 + k} 0 intrinsics"}
        break
    samples.append({"program": "intrinsics", "workload_seeds": n, "ok": total})
for batch in batches:
    args, rate, n = batch[:3]
    extra = list(batch[3]) if len(batch) > 3 else []
    env = dict(os.environ, MIRIFLAGS=f"-Zmiri-many-seeds=0..{n} -Zmiri-preemption-rate={rate}", CARGO_NET_OFFLINE="true")
    p = subprocess.run(["cargo", "+nightly", "miri", "run", "--offline"] + extra + ["--"] + args, cwd=work, env=env, capture_output=True, text=True)
    out = p.stdout + p.stderr
    oks = len(re.findall(r"^ok ", out, re.M)); total += oks
    m = re.search(r"FAILING SEED: (\d+)", out)
    samples.append({"program_args": args, "preemption_rate": rate, "miri_seeds": n, "seeds_ok": oks, "cargo_args": extra})
    if m or p.returncode != 0:
        if not m and oks == 0 and "error: could not compile" in out or "miri is not installed" in out.lower():
            sys.stderr.write(out[-3000:]); print("HARNESS ERROR: the Miri tier could not run"); sys.exit(2)
        why = "data race / undefined behaviour reported by Miri" if "Undefined Behavior" in out or "Data race" in out else "results differ from the solo / serial run"
        detail = next((l for l in out.splitlines() if "NOT-ISOLATED" in l or "NOT-DETERMINISTIC" in l or "Data race" in l or "Undefined Behavior" in l), why)
        viol = {"property": prop, "engine": "miri", "miri_seed": int(m.group(1)) if m else None, "preemption_rate": rate, "program_args": args,
                "violation": {"property": prop, "class": "not-isolated" if prop == "C18" else "state-diverged", "detail": detail.strip()},
                "replay_cmd": f"cd {src} && MIRIFLAGS='-Zmiri-seed={m.group(1) if m else 0} -Zmiri-preemption-rate={rate}' cargo +nightly miri run --offline " + " ".join(extra) + " -- " + " ".join(args)}
        break
# native stress (C18): the Miri crate run natively, real threads at full speed, two feature sets. Not a controlled
# interleaving - a monitor on seeded programs for what sits below every yield point and outside Miri's reach
# (wrappers around SIMD FFI); its replay repeats the run. std_mmap adds the path adapters: one thread hashes a file whose
# path is beyond PATH_MAX, the others hash through relative paths.
if prop == "C18" and not viol:
    rounds = "200" if tier == "thorough" else "60"
    for name, extra, tdir in [("std", [], "target/native"), ("no_std", ["--no-default-features"], "target/native_nostd"), ("std_mmap", ["--features", "mmap"], "target/native_mmap")]:
        for k in range(3 if tier == "thorough" else 1):
            args = [str(vseed * 17 + k), "8", "stress", rounds]
            env = dict(os.environ, CARGO_NET_OFFLINE="true")
            p = subprocess.run(["cargo", "run", "--release", "--offline", "--target-dir", tdir] + extra + ["--"] + args, cwd=work, env=env, capture_output=True, text=True)
            out = p.stdout + p.stderr
            if p.returncode == 0 and "ok stress" in out:
                total += 1; samples.append({"native_stress": name, "program_args": args, "ok": True}); continue
            if "could not compile" in out:
                sys.stderr.write(out[-3000:]); print("HARNESS ERROR: the native stress build failed"); sys.exit(2)
            detail = next((l for l in out.splitlines() if "NOT-ISOLATED" in l), "native stress run failed")
            viol = {"property": prop, "engine": "miri", "miri_seed": "native-" + name, "preemption_rate": "native", "program_args": args,
                    "violation": {"property": prop, "class": "not-isolated", "detail": detail.strip()},
                    "replay_cmd": f"cd {src} && for i in $(seq 50); do cargo run --release --offline --target-dir {tdir} " + " ".join(extra) + " -- " + " ".join(args) + " 2>&1 | grep NOT-ISOLATED && break; done"}
            break
        if viol: break
wall = time.time() - t0
exitc = 0
if viol:
    os.makedirs(os.path.join(verif, "replays"), exist_ok=True)
    rp = os.path.join(verif, "replays", f"{prop}-miri-{viol['miri_seed']}.json")
    json.dump(viol, open(rp, "w"), indent=1)
    print(f"  miri: {viol['violation']['detail']}")
    print(f"VIOLATION property={prop} replay={rp}")
    exitc = 1
part = {"part": "miri", "flavour": "miri-portable", "exit": exitc, "shapes": [], "sigs": [], "run_digests": {},
        "evidence": {"property_id": prop, "tier": tier, "seed": vseed, "level": "exploration", "wall_s": wall, "violations": 1 if viol else 0,
                     "assumptions": ["Miri interprets the portable Rust code only (no FFI); its scheduler is seeded, its race detector sound for the executed interleaving"],
                     "coverage": {"evaluations": total, "distinct_nontrivial": total, "rule": "one Miri seed = one interleaving with preemption at any basic block; distinct = seeds executed", "samples": samples}}}
os.makedirs(os.path.join(verif, "evidence", ".parts"), exist_ok=True)
json.dump(part, open(os.path.join(verif, "evidence", ".parts", f"{prop}.miri.json"), "w"), indent=1)
print(f"miri tier {prop}: {total} interleavings ok, {wall:.0f}s, exit {exitc}")
sys.exit(exitc)
