#!/bin/bash
# usage: tools/recheck.sh <seeded-id> <worktree> <check-prop> [extra b3sim args]   (re-run one check against a kept mutant)
id="$1"; wt="$2"; prop="$3"; shift 3
cd "$wt" && git checkout -q -- . && git checkout -q --detach "$(git -C /repo rev-parse HEAD)" && git apply "/verif/seeded/$id/patch.diff" || { echo "apply failed"; exit 2; }
/verif/tools/check_against.sh "$wt" "$prop" quick "$@" 2>&1 | tail -4; rc=${PIPESTATUS[0]}
git checkout -q -- .
python3 - "/verif/seeded/$id/meta.json" "$prop" "$rc" <<'PY'
import json,sys
p,prop,rc=sys.argv[1:4]
m=json.load(open(p)); m.setdefault("check_exit_codes_quick",{})[prop]=int(rc); json.dump(m,open(p,"w"),indent=1)
PY
echo "== $id vs $prop: exit $rc"
