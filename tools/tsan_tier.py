#!/usr/bin/env python3
"""ThreadSanitizer tier (C side of C08 / C18).

usage: tsan_tier.py <prop> <verif_seed> <tier> [--repo DIR] [--only SEED THREADS ROUNDS]
Builds /verif/csan/tsan_driver.c + the repository's C library (blake3.c, dispatcher, portable and the four intrinsics
kernels) with clang -O0 -fsanitize=thread (-O0 keeps every scratch array in memory) and runs seeded multi-thread
programs on disjoint instances, under every feature mask, the first batch starting with a cold feature cache. A TSan
report inside the library or a result that differs from the same program run by one thread alone is a violation. The
schedule is the operating system's: the replay repeats the run (up to 200 attempts).
Exit 0 held, 1 violation, 2 harness error. Writes evidence/.parts/<prop>.tsan.json."""
import json, os, shutil, subprocess, sys, time
prop = sys.argv[1]; vseed = int(sys.argv[2]); tier = sys.argv[3]
verif = os.environ.get("VERIF_DIR", "/verif")
here = os.path.dirname(os.path.dirname(os.path.abspath(__file__)))
repo = "/repo"
if "--repo" in sys.argv: repo = sys.argv[sys.argv.index("--repo") + 1]
work = "/tmp/b3tsan.%d" % os.getpid()
shutil.rmtree(work, ignore_errors=True); os.makedirs(work)
def done(code):
    shutil.rmtree(work, ignore_errors=True); sys.exit(code)
def part(exitc, total, samples, wall, viol, rule):
    os.makedirs(os.path.join(verif, "evidence", ".parts"), exist_ok=True)
    json.dump({"part": "tsan", "flavour": "clang-tsan (C intrinsics kernels, portable, blake3.c, dispatcher; -O0)", "exit": exitc, "shapes": [], "sigs": [], "run_digests": {},
               "evidence": {"property_id": prop, "tier": tier, "seed": vseed, "level": "exploration", "wall_s": wall, "violations": 1 if viol else 0,
                            "assumptions": ["clang 14 ThreadSanitizer on real threads: the schedule is the operating system's (a monitor on seeded programs, not a controlled interleaving); assembly kernels are not instrumented"],
                            "coverage": {"evaluations": total, "distinct_nontrivial": total, "rule": rule, "samples": samples}}},
              open(os.path.join(verif, "evidence", ".parts", f"{prop}.tsan.json"), "w"), indent=1)
rule = "seeded programs (C API histories + dispatcher-level kernel calls on disjoint instances) run by 2-8 threads under 7 feature masks, cold feature cache first; TSan report or difference from the solo run = violation; distinct = (seed, threads) programs run"
if shutil.which("clang") is None:
    print("tsan tier: clang not available, skipped"); part(0, 0, [], 0.0, None, "skipped: no clang"); done(0)
t0 = time.time()
c = os.path.join(repo, "c")
fl = ["-O0", "-g", "-fsanitize=thread", "-DBLAKE3_TESTING", "-I", c]
units = [(os.path.join(here, "csan", "tsan_driver.c"), []), (c + "/blake3.c", []), (c + "/blake3_dispatch.c", []), (c + "/blake3_portable.c", []),
         (c + "/blake3_sse2.c", ["-msse2"]), (c + "/blake3_sse41.c", ["-msse4.1"]), (c + "/blake3_avx2.c", ["-mavx2"]), (c + "/blake3_avx512.c", ["-mavx512f", "-mavx512vl"])]
objs = []; procs = []
for src, extra in units:
    o = os.path.join(work, os.path.basename(src) + ".o"); objs.append(o)
    procs.append(subprocess.Popen(["clang"] + fl + extra + ["-c", src, "-o", o], stderr=subprocess.PIPE, text=True))
for p in procs:
    _, err = p.communicate()
    if p.returncode != 0:
        sys.stderr.write(err[-2000:]); print("HARNESS ERROR: tsan build failed"); done(2)
drv = os.path.join(work, "driver")
p = subprocess.run(["clang", "-fsanitize=thread"] + objs + ["-o", drv, "-lpthread"], capture_output=True, text=True)
if p.returncode != 0:
    sys.stderr.write(p.stderr[-2000:]); print("HARNESS ERROR: tsan link failed"); done(2)
env = dict(os.environ, TSAN_OPTIONS="exitcode=66 halt_on_error=1 report_signal_unsafe=0")
def run(seed, threads, rounds):
    r = subprocess.run([drv, str(seed), str(threads), str(rounds)], capture_output=True, text=True, env=env)
    return r.returncode, r.stdout + r.stderr
if "--only" in sys.argv:
    i = sys.argv.index("--only"); seed, threads, rounds = sys.argv[i + 1:i + 4]
    for attempt in range(200):
        rc, out = run(seed, threads, rounds)
        if rc != 0:
            sys.stdout.write(out[-3000:]); print(f"TSAN-OR-OUTPUT-FAILURE reproduced (attempt {attempt + 1})"); done(1)
    print("replay did not reproduce in 200 attempts"); done(0)
n = 48 if tier == "thorough" else 8
total = 0; viol = None; samples = []
for k in range(n):
    seed = vseed * 1000 + k; threads = [4, 2, 8, 3][k % 4]; rounds = 12 if tier != "thorough" else 30
    rc, out = run(seed, threads, rounds)
    if rc == 0 and "ok tsan" in out:
        total += 1; continue
    what = next((l.strip() for l in out.splitlines() if "WARNING: ThreadSanitizer" in l or "NOT-ISOLATED" in l), f"driver exit {rc}")
    viol = (seed, threads, rounds, what, out[-2500:]); break
samples.append({"programs_ok": total, "threads": [4, 2, 8, 3], "feature_masks": 7})
wall = time.time() - t0
exitc = 0
if viol:
    seed, threads, rounds, what, tail = viol
    os.makedirs(os.path.join(verif, "replays"), exist_ok=True)
    rp = os.path.join(verif, "replays", f"{prop}-tsan-{seed}.json")
    json.dump({"property": prop, "engine": "tsan", "seed": seed, "threads": threads, "rounds": rounds, "tier": tier,
               "violation": {"property": prop, "class": "not-isolated", "detail": what},
               "replay_cmd": f"python3 {here}/tools/tsan_tier.py {prop} {vseed} {tier} --only {seed} {threads} {rounds}", "report_tail": tail}, open(rp, "w"), indent=1)
    print(f"  tsan: {what}")
    print(f"VIOLATION property={prop} replay={rp}")
    exitc = 1
part(exitc, total, samples, wall, viol, rule)
print(f"tsan tier {prop}: {total} programs ok, {wall:.0f}s, exit {exitc}")
done(exitc)
