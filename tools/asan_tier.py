#!/usr/bin/env python3
"""ASan/UBSan replay tier of C07.

usage: asan_tier.py <verif_seed> <tier> <b3sim binary> [--repo DIR]
Builds /verif/csan/driver.c + the repository's C library (blake3.c, dispatcher, portable and the four intrinsics
kernels) with clang -fsanitize=address,undefined, lets b3sim export seeded C API histories (the C06 plan family,
expected digests from SpecModel) and replays them in parallel. A sanitizer report or a wrong output is a violation;
the replay file names the plan (seed, index) and the command that re-runs exactly that plan.
Exit 0 held, 1 violation, 2 harness error (no clang, build failure). Writes evidence/.parts/C07.asan.json."""
import json, os, re, shutil, subprocess, sys, time
vseed = int(sys.argv[1]); tier = sys.argv[2]; b3sim = sys.argv[3]
verif = os.environ.get("VERIF_DIR", "/verif")
here = os.path.dirname(os.path.dirname(os.path.abspath(__file__)))
repo = "/repo"
if "--repo" in sys.argv: repo = sys.argv[sys.argv.index("--repo") + 1]
work = "/tmp/b3asan.%d" % os.getpid()
shutil.rmtree(work, ignore_errors=True); os.makedirs(work)
def done(code):
    shutil.rmtree(work, ignore_errors=True); sys.exit(code)
if shutil.which("clang") is None:
    print("asan tier: clang not available, skipped"); 
    json.dump({"part": "asan", "flavour": "clang-asan-ubsan", "exit": 0, "shapes": [], "sigs": [], "run_digests": {},
               "evidence": {"property_id": "C07", "tier": tier, "seed": vseed, "level": "exploration", "wall_s": 0.0, "violations": 0, "assumptions": [],
                            "coverage": {"evaluations": 0, "distinct_nontrivial": 0, "rule": "skipped: no clang", "samples": []}}},
              open(os.path.join(verif, "evidence", ".parts", "C07.asan.json"), "w"))
    done(0)
t0 = time.time()
c = os.path.join(repo, "c")
san = ["-O1", "-g", "-fsanitize=address,undefined", "-fno-sanitize-recover=undefined", "-fno-omit-frame-pointer", "-DBLAKE3_TESTING", "-I", c]
KERNELS = [("sse2", "BLAKE3_NO_SSE2", ["-msse2"]), ("sse41", "BLAKE3_NO_SSE41", ["-msse4.1"]), ("avx2", "BLAKE3_NO_AVX2", ["-mavx2"]), ("avx512", "BLAKE3_NO_AVX512", ["-mavx512f", "-mavx512vl"])]
# build variants: the library as a distributor may configure it (the BLAKE3_NO_* switches drop kernels; the
# on-stack arrays and the dispatcher must still agree with each other)
VARIANTS = {"full": [], "no_avx512": ["avx512"], "no_avx2": ["avx512", "avx2"], "no_sse41": ["avx512", "avx2", "sse41"], "portable": ["avx512", "avx2", "sse41", "sse2"]}
def build(variant):
    dropped = VARIANTS[variant]
    defs = ["-D" + d for (k, d, _) in KERNELS if k in dropped]
    units = [(os.path.join(here, "csan", "driver.c"), []), (c + "/blake3.c", []), (c + "/blake3_dispatch.c", []), (c + "/blake3_portable.c", [])]
    units += [(c + f"/blake3_{k}.c", fl) for (k, _, fl) in KERNELS if k not in dropped]
    objs = []; procs = []
    os.makedirs(os.path.join(work, variant), exist_ok=True)
    for src, fl in units:
        o = os.path.join(work, variant, os.path.basename(src) + ".o"); objs.append(o)
        procs.append(subprocess.Popen(["clang"] + san + defs + fl + ["-c", src, "-o", o], stderr=subprocess.PIPE, text=True))
    for p in procs:
        _, err = p.communicate()
        if p.returncode != 0:
            sys.stderr.write(err[-2000:]); print(f"HARNESS ERROR: sanitizer build failed (variant {variant})"); done(2)
    drv = os.path.join(work, variant, "driver")
    p = subprocess.run(["clang", "-fsanitize=address,undefined"] + objs + ["-o", drv], capture_output=True, text=True)
    if p.returncode != 0:
        sys.stderr.write(p.stderr[-2000:]); print(f"HARNESS ERROR: sanitizer link failed (variant {variant})"); done(2)
    return drv
if "--only" in sys.argv:
    # replay of one plan
    idx = sys.argv[sys.argv.index("--only") + 1]
    variant = sys.argv[sys.argv.index("--variant") + 1] if "--variant" in sys.argv else "full"
    drv = build(variant)
    p = subprocess.run([b3sim, "export-c-one", "--seed", str(vseed), "--index", idx, "--out", work + "/one.txt", "--tier", tier], capture_output=True, text=True)
    if p.returncode != 0:
        print("HARNESS ERROR: export-c-one failed"); done(2)
    env = dict(os.environ, ASAN_OPTIONS="detect_leaks=0:exitcode=99", UBSAN_OPTIONS="print_stacktrace=1:halt_on_error=1:exitcode=98")
    r = subprocess.run([drv, work + "/one.txt"], capture_output=True, text=True, env=env)
    sys.stdout.write(r.stdout); sys.stderr.write(r.stderr[-3000:])
    if r.returncode != 0:
        print("SANITIZER-OR-OUTPUT-FAILURE reproduced"); done(1)
    print("replay did not reproduce"); done(0)
count = int(os.environ.get("ASAN_PLANS", "40000" if tier == "thorough" else "2400"))
shards = 16
p = subprocess.run([b3sim, "export-c", "--seed", str(vseed), "--count", str(count), "--shards", str(shards), "--out", work + "/scripts", "--tier", tier], capture_output=True, text=True)
if p.returncode != 0:
    sys.stderr.write(p.stdout + p.stderr); print("HARNESS ERROR: export-c failed"); done(2)
env = dict(os.environ, ASAN_OPTIONS="detect_leaks=0:abort_on_error=0:exitcode=99", UBSAN_OPTIONS="print_stacktrace=1:halt_on_error=1:exitcode=98")
# which build replays which shard of scripts
if tier == "thorough":
    assign = ["full"] * 8 + ["no_avx512"] * 3 + ["no_avx2"] * 2 + ["no_sse41", "portable", "portable"]
else:
    assign = ["full"] * 10 + ["no_avx512"] * 4 + ["no_avx2", "portable"]
drivers = {v: build(v) for v in sorted(set(assign))}
runs = [subprocess.Popen([drivers[assign[k]], f"{work}/scripts/shard_{k}.txt"], stdout=subprocess.PIPE, stderr=subprocess.PIPE, text=True, env=env) for k in range(shards)]
plans = 0; ops = 0; viol = None; per_variant = {}
for k, r in enumerate(runs):
    out, err = r.communicate()
    m = re.search(r"ok plans=(\d+) ops=(\d+)", out)
    if r.returncode == 0 and m:
        plans += int(m.group(1)); ops += int(m.group(2)); per_variant[assign[k]] = per_variant.get(assign[k], 0) + int(m.group(1)); continue
    cur = re.findall(r"(?:CUR|WRONG-OUTPUT) plan=(\d+)", out)
    idx = int(cur[-1]) if cur else -1
    what = "output differs from SpecModel" if r.returncode == 3 else next((l.strip() for l in err.splitlines() if "ERROR: AddressSanitizer" in l or "runtime error" in l), f"driver exit {r.returncode}")
    if viol is None:
        viol = (idx, f"[build variant {assign[k]}] " + what, err[-1500:], assign[k])
wall = time.time() - t0
exitc = 0
os.makedirs(os.path.join(verif, "replays"), exist_ok=True)
if viol:
    idx, what, tail, variant = viol
    rp = os.path.join(verif, "replays", f"C07-asan-{idx}.json")
    json.dump({"property": "C07", "engine": "asan", "plan_family": "c06 (seed^0xA5A4)", "verif_seed": vseed, "plan_index": idx, "tier": tier,
               "violation": {"property": "C07", "class": "sanitizer", "detail": what},
               "variant": variant, "replay_cmd": f"python3 {here}/tools/asan_tier.py {vseed} {tier} {b3sim} --only {idx} --variant {variant}", "report_tail": tail}, open(rp, "w"), indent=1)
    print(f"  asan: plan {idx}: {what}")
    print(f"VIOLATION property=C07 replay={rp}")
    exitc = 1
os.makedirs(os.path.join(verif, "evidence", ".parts"), exist_ok=True)
json.dump({"part": "asan", "flavour": "clang-asan-ubsan (C intrinsics kernels, portable, blake3.c, dispatcher)", "exit": exitc, "shapes": [], "sigs": [], "run_digests": {},
           "evidence": {"property_id": "C07", "tier": tier, "seed": vseed, "level": "exploration", "wall_s": wall, "violations": 1 if viol else 0,
                        "assumptions": ["clang 14 AddressSanitizer / UBSan; assembly kernels are not instrumented (they are covered by the guard-page families)"],
                        "coverage": {"evaluations": plans, "distinct_nontrivial": plans, "rule": "C API histories of the C06 plan family replayed under ASan+UBSan with exact-size heap buffers, by builds of the C library with none / some / all of the BLAKE3_NO_* switches; distinct = plans replayed",
                                     "samples": [{"plans": plans, "driver_ops": ops, "shards": shards, "plans_per_build_variant": per_variant}]}}},
          open(os.path.join(verif, "evidence", ".parts", "C07.asan.json"), "w"), indent=1)
print(f"asan tier C07: {plans} plans, {ops} driver ops, {wall:.0f}s, exit {exitc}")
done(exitc)
