#!/usr/bin/env python3
"""ASan/UBSan replay tier of C07.

usage: asan_tier.py <verif_seed> <tier> <b3sim binary> [--repo DIR]
Builds /verif/csan/driver.c + the repository's C library (blake3.c, dispatcher, portable and the four intrinsics
kernels) with clang -fsanitize=address,undefined, lets b3sim export seeded C API histories (the C06 plan family,
expected digests from SpecModel) and replays them in parallel. A sanitizer report or a wrong output is a violation;
the replay file names the plan (seed, index) and the command that re-runs exactly that plan.
Exit 0 held, 1 violation, 2 harness error (no clang, build failure). Writes evidence/.parts/C07.asan.json."""
import json, os, re, shutil, subprocess, sys, time
vseed = int(sys.argv[1]); tier = sys.argv[2]; b3sim = sys.argv[3]
verif = os.environ.get("VERIF_DIR", "/verif")
here = os.path.dirname(os.path.dirname(os.path.abspath(__file__)))
repo = "/repo"
if "--repo" in sys.argv: repo = sys.argv[sys.argv.index("--repo") + 1]
work = "/tmp/b3asan.%d" % os.getpid()
shutil.rmtree(work, ignore_errors=True); os.makedirs(work)
def done(code):
    shutil.rmtree(work, ignore_errors=True); sys.exit(code)
if shutil.which("clang") is None:
    print("asan tier: clang not available, skipped"); 
    json.dump({"part": "asan", "flavour": "clang-asan-ubsan", "exit": 0, "shapes": [], "sigs": [], "run_digests": {},
               "evidence": {"property_id": "C07", "tier": tier, "seed": vseed, "level": "exploration", "wall_s": 0.0, "violations": 0, "assumptions": [],
                            "coverage": {"evaluations": 0, "distinct_nontrivial": 0, "rule": "skipped: no clang", "samples": []}}},
              open(os.path.join(verif, "evidence", ".parts", "C07.asan.json"), "w"))
    done(0)
t0 = time.time()
c = os.path.join(repo, "c")
san = ["-O1", "-g", "-fsanitize=address,undefined", "-fno-sanitize-recover=undefined", "-fno-omit-frame-pointer", "-DBLAKE3_TESTING", "-I", c]
objs = []
units = [(os.path.join(here, "csan", "driver.c"), []), (c + "/blake3.c", []), (c + "/blake3_dispatch.c", []), (c + "/blake3_portable.c", []),
         (c + "/blake3_sse2.c", ["-msse2"]), (c + "/blake3_sse41.c", ["-msse4.1"]), (c + "/blake3_avx2.c", ["-mavx2"]), (c + "/blake3_avx512.c", ["-mavx512f", "-mavx512vl"])]
procs = []
for src, fl in units:
    o = os.path.join(work, os.path.basename(src) + ".o"); objs.append(o)
    procs.append(subprocess.Popen(["clang"] + san + fl + ["-c", src, "-o", o], stderr=subprocess.PIPE, text=True))
for p in procs:
    _, err = p.communicate()
    if p.returncode != 0:
        sys.stderr.write(err[-2000:]); print("HARNESS ERROR: sanitizer build failed"); done(2)
drv = os.path.join(work, "driver")
p = subprocess.run(["clang", "-fsanitize=address,undefined"] + objs + ["-o", drv], capture_output=True, text=True)
if p.returncode != 0:
    sys.stderr.write(p.stderr[-2000:]); print("HARNESS ERROR: sanitizer link failed"); done(2)
if "--only" in sys.argv:
    # replay of one plan
    idx = sys.argv[sys.argv.index("--only") + 1]
    p = subprocess.run([b3sim, "export-c-one", "--seed", str(vseed), "--index", idx, "--out", work + "/one.txt", "--tier", tier], capture_output=True, text=True)
    if p.returncode != 0:
        print("HARNESS ERROR: export-c-one failed"); done(2)
    env = dict(os.environ, ASAN_OPTIONS="detect_leaks=0:exitcode=99", UBSAN_OPTIONS="print_stacktrace=1:halt_on_error=1:exitcode=98")
    r = subprocess.run([drv, work + "/one.txt"], capture_output=True, text=True, env=env)
    sys.stdout.write(r.stdout); sys.stderr.write(r.stderr[-3000:])
    if r.returncode != 0:
        print("SANITIZER-OR-OUTPUT-FAILURE reproduced"); done(1)
    print("replay did not reproduce"); done(0)
count = int(os.environ.get("ASAN_PLANS", "40000" if tier == "thorough" else "2400"))
shards = 16
p = subprocess.run([b3sim, "export-c", "--seed", str(vseed), "--count", str(count), "--shards", str(shards), "--out", work + "/scripts", "--tier", tier], capture_output=True, text=True)
if p.returncode != 0:
    sys.stderr.write(p.stdout + p.stderr); print("HARNESS ERROR: export-c failed"); done(2)
env = dict(os.environ, ASAN_OPTIONS="detect_leaks=0:abort_on_error=0:exitcode=99", UBSAN_OPTIONS="print_stacktrace=1:halt_on_error=1:exitcode=98")
runs = [subprocess.Popen([drv, f"{work}/scripts/shard_{k}.txt"], stdout=subprocess.PIPE, stderr=subprocess.PIPE, text=True, env=env) for k in range(shards)]
plans = 0; ops = 0; viol = None
for k, r in enumerate(runs):
    out, err = r.communicate()
    m = re.search(r"ok plans=(\d+) ops=(\d+)", out)
    if r.returncode == 0 and m:
        plans += int(m.group(1)); ops += int(m.group(2)); continue
    cur = re.findall(r"(?:CUR|WRONG-OUTPUT) plan=(\d+)", out)
    idx = int(cur[-1]) if cur else -1
    what = "output differs from SpecModel" if r.returncode == 3 else next((l.strip() for l in err.splitlines() if "ERROR: AddressSanitizer" in l or "runtime error" in l), f"driver exit {r.returncode}")
    if viol is None:
        viol = (idx, what, err[-1500:])
wall = time.time() - t0
exitc = 0
os.makedirs(os.path.join(verif, "replays"), exist_ok=True)
if viol:
    idx, what, tail = viol
    rp = os.path.join(verif, "replays", f"C07-asan-{idx}.json")
    json.dump({"property": "C07", "engine": "asan", "plan_family": "c06 (seed^0xA5A4)", "verif_seed": vseed, "plan_index": idx, "tier": tier,
               "violation": {"property": "C07", "class": "sanitizer", "detail": what},
               "replay_cmd": f"python3 {here}/tools/asan_tier.py {vseed} {tier} {b3sim} --only {idx}", "report_tail": tail}, open(rp, "w"), indent=1)
    print(f"  asan: plan {idx}: {what}")
    print(f"VIOLATION property=C07 replay={rp}")
    exitc = 1
os.makedirs(os.path.join(verif, "evidence", ".parts"), exist_ok=True)
json.dump({"part": "asan", "flavour": "clang-asan-ubsan (C intrinsics kernels, portable, blake3.c, dispatcher)", "exit": exitc, "shapes": [], "sigs": [], "run_digests": {},
           "evidence": {"property_id": "C07", "tier": tier, "seed": vseed, "level": "exploration", "wall_s": wall, "violations": 1 if viol else 0,
                        "assumptions": ["clang 14 AddressSanitizer / UBSan; assembly kernels are not instrumented (they are covered by the guard-page families)"],
                        "coverage": {"evaluations": plans, "distinct_nontrivial": plans, "rule": "C API histories of the C06 plan family replayed under ASan+UBSan with exact-size heap buffers; distinct = plans replayed",
                                     "samples": [{"plans": plans, "driver_ops": ops, "shards": shards}]}}},
          open(os.path.join(verif, "evidence", ".parts", "C07.asan.json"), "w"), indent=1)
print(f"asan tier C07: {plans} plans, {ops} driver ops, {wall:.0f}s, exit {exitc}")
done(exitc)
