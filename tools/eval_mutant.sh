#!/bin/bash
# usage: tools/eval_mutant.sh <prop> <worktree> <mutant-name> [check-prop ...]
# 1. confirms in the scratch worktree: builds, 44 baseline tests pass with the patch, demo fails with / passes without
# 2. applies the patch to /repo, runs ./check <prop> quick (and extra props), reverts /repo
# 3. writes /verif/seeded/<prop>-<name>/{patch.diff,demo.rs,meta.json}
set -u
prop="$1"; wt="$2"; name="$3"; shift 3
checks="$prop $*"
src="$wt/${MUTDIR:-mutants_out}/$name"
out="/verif/seeded/$prop-$name"
log="/tmp/eval_$prop-$name.log"; : > "$log"
export CARGO_NET_OFFLINE=true
cd "$wt" || exit 2
git checkout -q -- . ; rm -rf tests/demo_*.rs
git checkout -q --detach "$(git -C /repo rev-parse HEAD)"   # hooks and fixes committed since the worktree was made
demo_cmd=$(python3 - "$src/demo.rs" <<'PY'
import re,sys
t=open(sys.argv[1]).read()
t=re.sub(r'\\\s*\n\s*//\s*', ' ', t)   # join "\" continuation lines inside // comments
m=re.search(r'cargo test[^`\n]*', t)
print(m.group(0).strip() if m else '')
PY
)
testname="demo_$(echo "$name" | tr '-' '_')"
feat=$(echo "$demo_cmd" | grep -o -- '--features[= ][^ ]*' | head -1)
[ -z "$(echo "$demo_cmd" | grep -- '--no-default-features')" ] && ndf="" || ndf="--no-default-features"
# a demonstration that only fails without debug assertions says so with --release
echo "$demo_cmd" | grep -q -- '--release' && ndf="$ndf --release"
demofile=demo.rs
if [ -f "$src/demo.c" ]; then
  demofile=demo.c
  demo_cmd=$(grep -m1 'gcc ' "$src/demo.c" | sed 's/^ *[*/]* *//; s/ *\*\/ *$//')
  mkdir -p "$wt/target"
  run_demo() { ( cd "$wt" && cp "$src/demo.c" demo.c && timeout 600 bash -c "$demo_cmd" </dev/null; rc=$?; rm -f demo.c demo; exit $rc ) >>"$log" 2>&1; }
  place_demo() { :; }
elif [ -f "$src/demo.sh" ]; then
  demofile=demo.sh
  demo_cmd="bash $src/demo.sh"
  run_demo() { ( cd "$wt" && timeout 1200 bash "$src/demo.sh" </dev/null ) >>"$log" 2>&1; }
  place_demo() { :; }
else
  place_demo() { mkdir -p tests; cp "$src/demo.rs" "tests/$testname.rs"; }
  run_demo() { timeout 1200 cargo test --offline $ndf $feat --test "$testname" </dev/null >>"$log" 2>&1; }
fi
place_demo
# without the patch: demo must pass
run_demo; demo_clean=$?
git apply "$src/patch.diff" || { echo "$prop-$name: patch does not apply"; exit 2; }
cargo build --offline >>"$log" 2>&1; build=$?
rm -rf tests
base=$(cargo test --workspace --no-fail-fast --offline 2>>"$log" | grep -E "^test result" | head -1)
place_demo
run_demo; demo_mut=$?
rm -rf tests
echo "$prop-$name: build=$build baseline=[$base] demo_clean_exit=$demo_clean demo_mutant_exit=$demo_mut"
confirmed=false
if [ $build -eq 0 ] && echo "$base" | grep -q "44 passed; 0 failed" && [ $demo_clean -eq 0 ] && [ $demo_mut -ne 0 ]; then confirmed=true; fi
results=""
if ! $confirmed; then git checkout -q -- . ; fi
if $confirmed; then
  for c in $checks; do
    /verif/tools/check_against.sh "$wt" "$c" quick >>"$log" 2>&1; rc=$?
    results="$results \"$c\": $rc,"
    echo "   check $c quick -> exit $rc"
  done
  git checkout -q -- .
  mkdir -p "$out"; cp "$src/patch.diff" "$src/$demofile" "$out/"
  python3 - "$src/meta.json" "$out/meta.json" "$prop" "$name" "{${results%,}}" "$demo_cmd" <<'PY'
import json,sys
src,dst,prop,name,res,demo=sys.argv[1:7]
try: m=json.load(open(src))
except Exception: m={}
out={"property":prop,"name":name,"what_it_breaks":m.get("what_it_breaks"),"needs_to_manifest":m.get("needs_to_manifest"),
 "origin":"independent sub-agent given only the property text and a scratch worktree",
 "confirmed":{"builds":True,"baseline_44_pass_with_patch":True,"demo_fails_with_patch":True,"demo_passes_without_patch":True,"demo_command":demo},
 "check_exit_codes_quick":json.loads(res)}
json.dump(out,open(dst,"w"),indent=1)
PY
fi
