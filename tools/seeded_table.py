#!/usr/bin/env python3
"""Regenerates the table of seeded changes in DESIGN.md from seeded/*/meta.json."""
import json, glob, re, os
rows=[]
for d in sorted(glob.glob('/verif/seeded/*/')):
    try: m=json.load(open(d+'meta.json'))
    except Exception: continue
    ex=m.get('check_exit_codes_quick',{})
    own=ex.get(m['property'])
    caught=[p for p,c in ex.items() if c==1]
    status='caught by '+', '.join(caught) if caught else ('MISSED' if ex else 'not run')
    if not caught and (m.get('note') or '').startswith('NOT CLAIMED'): status='not caught'
    if not caught and (m.get('note') or '').startswith('NOT CAUGHT'): status='not caught'
    if (m.get('note') or '').startswith('REJECTED'): status='rejected'
    what=(m.get('what_it_breaks') or '').replace('\n',' ').replace('|','/')
    if len(what)>150: what=what[:147]+'...'
    needs=(m.get('needs_to_manifest') or '').replace('\n',' ').replace('|','/')
    if len(needs)>150: needs=needs[:147]+'...'
    note=m.get('note','')
    rows.append(f"| `{os.path.basename(d[:-1])}` | {what} | {needs} | {status}{' — '+note if note else ''} |")
table="| seeded change | what it breaks | what it needs to manifest | quick checks |\n|---|---|---|---|\n"+"\n".join(rows)
p='/verif/DESIGN.md'; s=open(p).read()
s=re.sub(r'<!-- SEEDED-TABLE-BEGIN -->.*?<!-- SEEDED-TABLE-END -->', lambda m: '<!-- SEEDED-TABLE-BEGIN -->\n'+table+'\n<!-- SEEDED-TABLE-END -->', s, flags=re.S)
open(p,'w').write(s)
print(len(rows),'rows')
