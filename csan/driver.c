/* ASan/UBSan replay driver (C07): re-executes C API histories exported by b3sim (`b3sim export-c`) against the C
 * library built from the repository's working tree with clang -fsanitize=address,undefined. Every input and output
 * buffer is a heap allocation of exactly the requested size, so the sanitizer's redzones see any read or write
 * outside the caller's bytes in the instrumented C code (blake3.c, dispatcher, portable and intrinsics kernels);
 * UBSan sees shifts, misaligned accesses and signed overflow. Outputs are also compared with the digests b3sim
 * computed from SpecModel. Exit 0 ok, 3 wrong output (prints plan index), other: sanitizer report. */
#include <stdint.h>
#include <stdio.h>
#include <stdlib.h>
#include <string.h>
#include "blake3.h"

extern int g_cpu_features; /* settable with -DBLAKE3_TESTING */

static uint64_t splitmix64(uint64_t *x) {
  *x += 0x9E3779B97F4A7C15ULL;
  uint64_t z = *x;
  z = (z ^ (z >> 30)) * 0xBF58476D1CE4E5B9ULL;
  z = (z ^ (z >> 27)) * 0x94D049BB133111EBULL;
  return z ^ (z >> 31);
}
typedef struct { uint64_t s[4]; } rng_t;
static uint64_t rotl(uint64_t x, int k) { return (x << k) | (x >> (64 - k)); }
static void rng_init(rng_t *r, uint64_t seed) { uint64_t x = seed; for (int i = 0; i < 4; i++) r->s[i] = splitmix64(&x); }
static uint64_t rng_next(rng_t *r) {
  uint64_t result = rotl(r->s[1] * 5, 7) * 9, t = r->s[1] << 17;
  r->s[2] ^= r->s[0]; r->s[3] ^= r->s[1]; r->s[1] ^= r->s[2]; r->s[0] ^= r->s[3]; r->s[2] ^= t; r->s[3] = rotl(r->s[3], 45);
  return result;
}
static void rng_fill(rng_t *r, uint8_t *buf, size_t n) {
  size_t i = 0;
  for (; i + 8 <= n; i += 8) { uint64_t v = rng_next(r); memcpy(buf + i, &v, 8); }
  if (i < n) { uint64_t v = rng_next(r); memcpy(buf + i, &v, n - i); }
}
static uint64_t fnv(const uint8_t *b, size_t n) {
  uint64_t h = 0xcbf29ce484222325ULL;
  for (size_t i = 0; i < n; i++) { h ^= b[i]; h *= 0x100000001B3ULL; }
  return h;
}

#define MAXD 64
#define MAXS 64
static uint8_t *data[MAXD]; static size_t dlen[MAXD];
static blake3_hasher *hs[MAXS];

static const char *ALPHA[16] = {"a", "B", " ", "0", "-", "\xc3\xa9", "\xc3\x9f", "\xe2\x86\x92", "\xe6\x97\xa5", "\xe6\x9c\xac",
                                "\xf0\x9d\x94\x98", "\xf0\x9f\x98\x80", ":", "", "~", "\n"}; /* index 13 is NUL: handled below */

static uint8_t *ctx_bytes(int di, size_t *out_len) {
  uint8_t *c = malloc(dlen[di] * 4 + 1); size_t n = 0;
  for (size_t i = 0; i < dlen[di]; i++) {
    int k = data[di][i] & 15;
    if (k == 13) { c[n++] = 0; continue; }
    size_t l = strlen(ALPHA[k]); memcpy(c + n, ALPHA[k], l); n += l;
  }
  *out_len = n; return c;
}

int main(int argc, char **argv) {
  if (argc < 2) return 2;
  FILE *f = fopen(argv[1], "r");
  if (!f) return 2;
  char line[512]; long plan = -1; long ops = 0, plans = 0;
  while (fgets(line, sizeof line, f)) {
    char op = line[0];
    if (op == 'P') {
      for (int i = 0; i < MAXD; i++) { free(data[i]); data[i] = NULL; dlen[i] = 0; }
      for (int i = 0; i < MAXS; i++) { free(hs[i]); hs[i] = NULL; }
      plan = atol(line + 2); plans++;
    } else if (op == 'M') {
      g_cpu_features = atoi(line + 2);
    } else if (op == 'D') {
      int idx; char kind; unsigned long long a; size_t len;
      if (sscanf(line + 2, "%d %c %llu %zu", &idx, &kind, &a, &len) != 4 || idx >= MAXD) return 2;
      free(data[idx]); data[idx] = malloc(len ? len : 1); dlen[idx] = len;
      if (kind == 'R') { rng_t r; rng_init(&r, a); rng_fill(&r, data[idx], len); }
      else if (kind == 'P') { for (size_t i = 0; i < len; i++) data[idx][i] = (uint8_t)((i + a) % 251); }
      else memset(data[idx], (int)a, len);
    } else if (op == 'I') {
      int slot, mode, di, raw;
      if (sscanf(line + 2, "%d %d %d %d", &slot, &mode, &di, &raw) != 4 || slot >= MAXS) return 2;
      free(hs[slot]); hs[slot] = malloc(sizeof(blake3_hasher)); memset(hs[slot], 0xEE, sizeof(blake3_hasher));
      if (mode == 0) blake3_hasher_init(hs[slot]);
      else if (mode == 1) { uint8_t key[32] = {0}; memcpy(key, data[di], dlen[di] < 32 ? dlen[di] : 32); blake3_hasher_init_keyed(hs[slot], key); }
      else {
        size_t cl; uint8_t *c = ctx_bytes(di, &cl);
        int has_nul = memchr(c, 0, cl) != NULL;
        if (raw || has_nul) { uint8_t *exact = malloc(cl ? cl : 1); memcpy(exact, c, cl); blake3_hasher_init_derive_key_raw(hs[slot], exact, cl); free(exact); }
        else { c[cl] = 0; blake3_hasher_init_derive_key(hs[slot], (const char *)c); }
        free(c);
      }
    } else if (op == 'U') {
      int slot, di; size_t off, len;
      if (sscanf(line + 2, "%d %d %zu %zu", &slot, &di, &off, &len) != 4 || !hs[slot]) return 2;
      uint8_t *exact = malloc(len ? len : 1); memcpy(exact, data[di] + off, len); /* exactly len bytes: redzones right after */
      /* a zero-length update may come with a dangling pointer or with NULL (an empty std::vector's data()) */
      blake3_hasher_update(hs[slot], len ? exact : ((off + (size_t)slot) % 2 ? (void *)1 : NULL), len);
      free(exact);
    } else if (op == 'F') {
      int slot; long long seek; size_t n; unsigned long long want;
      if (sscanf(line + 2, "%d %lld %zu %llx", &slot, &seek, &n, &want) != 4 || !hs[slot]) return 2;
      uint8_t *out = malloc(n ? n : 1);
      if (seek < 0) blake3_hasher_finalize(hs[slot], out, n); else blake3_hasher_finalize_seek(hs[slot], (uint64_t)seek, out, n);
      if (fnv(out, n) != want) { printf("WRONG-OUTPUT plan=%ld\n", plan); return 3; }
      free(out);
    } else if (op == 'S') { /* seek given as unsigned (above 2^63) */
      int slot; unsigned long long seek; size_t n; unsigned long long want;
      if (sscanf(line + 2, "%d %llu %zu %llx", &slot, &seek, &n, &want) != 4 || !hs[slot]) return 2;
      uint8_t *out = malloc(n ? n : 1);
      blake3_hasher_finalize_seek(hs[slot], seek, out, n);
      if (fnv(out, n) != want) { printf("WRONG-OUTPUT plan=%ld\n", plan); return 3; }
      free(out);
    } else if (op == 'R') {
      int slot = atoi(line + 2); if (hs[slot]) blake3_hasher_reset(hs[slot]);
    } else if (op == 'C') {
      int slot, nw; if (sscanf(line + 2, "%d %d", &slot, &nw) != 2 || !hs[slot] || nw >= MAXS) return 2;
      free(hs[nw]); hs[nw] = malloc(sizeof(blake3_hasher)); memcpy(hs[nw], hs[slot], sizeof(blake3_hasher));
    } else if (op == 'X') {
      printf("CUR plan=%ld\n", plan); fflush(stdout);
    }
    ops++;
  }
  printf("ok plans=%ld ops=%ld\n", plans, ops);
  return 0;
}
