/* ThreadSanitizer tier (C08 / C18, C side): T threads, each with its own hashers, inputs and output buffers, call the
 * C API (init / update in seeded pieces / finalize_seek) and the dispatcher-level kernels (blake3_hash_many,
 * blake3_xof_many, compress) of the library built from the working tree with clang -fsanitize=thread, for every
 * feature mask of the run. Disjoint instances share nothing by contract: any data race TSan reports inside the
 * library (a scratch buffer made static, a cache without synchronisation) is a violation, whether or not a wrong
 * byte was observed; every result is also compared with the same calls made by one thread alone.
 * argv: <seed> <threads> <rounds>.  exit 0 ok, 3 result differs from the solo run, 66 TSan report. */
#include <pthread.h>
#include <stdint.h>
#include <stdio.h>
#include <stdlib.h>
#include <string.h>
#include "blake3.h"
#include "blake3_impl.h"

extern int g_cpu_features; /* -DBLAKE3_TESTING */

static uint64_t splitmix64(uint64_t *x) {
  *x += 0x9E3779B97F4A7C15ULL;
  uint64_t z = *x;
  z = (z ^ (z >> 30)) * 0xBF58476D1CE4E5B9ULL;
  z = (z ^ (z >> 27)) * 0x94D049BB133111EBULL;
  return z ^ (z >> 31);
}

#define MAXOUT 4096
typedef struct { uint64_t seed; int rounds; uint64_t digest; } job_t;

static uint64_t fnv(uint64_t h, const uint8_t *b, size_t n) {
  for (size_t i = 0; i < n; i++) { h ^= b[i]; h *= 0x100000001B3ULL; }
  return h;
}

/* everything one thread does; returns a digest of every byte it produced */
static uint64_t program(uint64_t seed, int rounds) {
  uint64_t s = seed, acc = 0xcbf29ce484222325ULL;
  size_t cap = 40 * 1024;
  uint8_t *in = malloc(cap), *out = malloc(MAXOUT);
  for (size_t i = 0; i < cap; i++) in[i] = (uint8_t)splitmix64(&s);
  for (int r = 0; r < rounds; r++) {
    /* API history: keyed / plain / derive, pieces, finalize_seek */
    blake3_hasher h;
    uint8_t key[32];
    for (int i = 0; i < 32; i++) key[i] = (uint8_t)splitmix64(&s);
    switch (splitmix64(&s) % 3) {
      case 0: blake3_hasher_init(&h); break;
      case 1: blake3_hasher_init_keyed(&h, key); break;
      default: blake3_hasher_init_derive_key_raw(&h, key, 1 + splitmix64(&s) % 31); break;
    }
    size_t total = splitmix64(&s) % cap, off = 0;
    while (off < total) {
      size_t k = 1 + splitmix64(&s) % (total - off);
      blake3_hasher_update(&h, in + off, k);
      off += k;
    }
    size_t n = 1 + splitmix64(&s) % 300;
    blake3_hasher_finalize_seek(&h, splitmix64(&s) % 1000, out, n);
    acc = fnv(acc, out, n);
    /* dispatcher-level kernels on this thread's own buffers */
    size_t ni = 1 + splitmix64(&s) % 20;
    const uint8_t *ptrs[20];
    for (size_t i = 0; i < ni; i++) ptrs[i] = in + i * BLAKE3_CHUNK_LEN;
    uint32_t kw[8];
    memcpy(kw, key, 32);
    blake3_hash_many(ptrs, ni, BLAKE3_CHUNK_LEN / BLAKE3_BLOCK_LEN, kw, splitmix64(&s), true, 0, CHUNK_START, CHUNK_END, out);
    acc = fnv(acc, out, 32 * ni);
    size_t nb = 1 + splitmix64(&s) % 33;
    blake3_xof_many(kw, in, 64, splitmix64(&s), ROOT, out, nb);
    acc = fnv(acc, out, 64 * nb);
    uint32_t cv[8];
    memcpy(cv, kw, 32);
    blake3_compress_in_place(cv, in + 64, 64, splitmix64(&s), 0);
    acc = fnv(acc, (uint8_t *)cv, 32);
  }
  free(in); free(out);
  return acc;
}

static void *worker(void *p) {
  job_t *j = p;
  j->digest = program(j->seed, j->rounds);
  return NULL;
}

int main(int argc, char **argv) {
  uint64_t seed = argc > 1 ? strtoull(argv[1], NULL, 10) : 1;
  int threads = argc > 2 ? atoi(argv[2]) : 4;
  int rounds = argc > 3 ? atoi(argv[3]) : 20;
  static const int masks[] = {-1 /* real detection */, 0, 0x01, 0x07, 0x0f, 0x1f, 0x7f};
  int detected;
  g_cpu_features = 0x40000000; /* UNDEFINED: let the first call detect, concurrently below */
  for (size_t m = 0; m < sizeof masks / sizeof masks[0]; m++) {
    job_t jobs[16];
    uint64_t solo[16];
    pthread_t th[16];
    if (threads > 16) threads = 16;
    if (masks[m] >= 0) g_cpu_features = masks[m] & detected;
    /* first mask: the feature cache is cold when the threads start (first use, all at once) */
    for (int t = 0; t < threads; t++) { jobs[t].seed = seed * 1000003ULL + (uint64_t)t * 7919 + m; jobs[t].rounds = rounds; }
    for (int t = 0; t < threads; t++) pthread_create(&th[t], NULL, worker, &jobs[t]);
    for (int t = 0; t < threads; t++) pthread_join(th[t], NULL);
    if (masks[m] < 0) detected = g_cpu_features;
    for (int t = 0; t < threads; t++) solo[t] = program(jobs[t].seed, rounds);
    for (int t = 0; t < threads; t++)
      if (solo[t] != jobs[t].digest) { printf("NOT-ISOLATED mask=%d thread=%d seed=%llu\n", masks[m], t, (unsigned long long)seed); return 3; }
  }
  printf("ok tsan seed=%llu threads=%d rounds=%d masks=%zu\n", (unsigned long long)seed, threads, rounds, sizeof masks / sizeof masks[0]);
  return 0;
}
