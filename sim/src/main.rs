mod b3;
mod checks;
mod cli;
mod cnode;
mod exec;
mod export;
mod gen;
mod guard;
mod judges;
mod kernels;
mod lean;
mod known;
mod model;
mod ops;
mod ops2;
mod plan;
mod rng;
mod runner;
mod sched;
mod shrink;
mod stable;
mod tpool;

const FROZEN_VECTORS: &str = include_str!("../vectors/frozen_vectors.json");

fn arg_val(args: &[String], name: &str) -> Option<String> {
    args.iter().position(|a| a == name).and_then(|i| args.get(i + 1).cloned())
}

fn main() {
    let args: Vec<String> = std::env::args().collect();
    // a panic in the harness itself is a harness error (exit 2), never a verdict
    let code = std::panic::catch_unwind(|| real_main(&args)).unwrap_or_else(|_| {
        eprintln!("HARNESS ERROR: the simulator itself panicked");
        2
    });
    std::process::exit(code);
}

fn real_main(args: &[String]) -> i32 {
    let cmd = args.get(1).map(|s| s.as_str()).unwrap_or("");
    // the model self-test gates everything: a broken oracle is a harness error, never a violation
    match model::selftest(FROZEN_VECTORS) {
        Ok(n) => {
            if cmd == "selftest" && args.get(2).map(|s| s.as_str()) == Some("model") {
                println!("model selftest: {} known answers ok", n);
                return 0;
            }
        }
        Err(e) => {
            eprintln!("HARNESS ERROR: SpecModel self-test failed: {e}");
            return 2;
        }
    }
    if cmd == "child" && args.get(2).map(|s| s.as_str()) == Some("first-use") {
        // nothing of the libraries under test may run before the tasks do
        exec::FIRST_USE.store(true, std::sync::atomic::Ordering::Relaxed);
        return judges::child_first_use(args.get(3).map(|s| s.as_str()).unwrap_or(""));
    }
    exec::install_hooks();
    let jobs = arg_val(args, "--jobs").and_then(|s| s.parse().ok()).unwrap_or(16usize);
    match cmd {
        "run" => {
            let prop = arg_val(args, "--prop").unwrap_or_default();
            let tier = arg_val(args, "--tier").or_else(|| std::env::var("VERIF_TIER").ok()).unwrap_or_else(|| "quick".into());
            let seed = arg_val(args, "--seed")
                .or_else(|| std::env::var("VERIF_SEED").ok())
                .and_then(|s| s.parse().ok())
                .unwrap_or(1u64);
            let scale = arg_val(args, "--scale").and_then(|s| s.parse().ok()).unwrap_or(1.0f64);
            let Some(spec) = checks::spec(&prop) else {
                eprintln!("unknown property {prop}");
                return 2;
            };
            let cfg = runner::RunCfg { part: arg_val(args, "--part"), tier, seed, jobs, scale, only_family: arg_val(args, "--family") };
            runner::run_check(&spec, &cfg)
        }
        "shard" => {
            let prop = arg_val(args, "--prop").unwrap_or_default();
            let Some(spec) = checks::spec(&prop) else { return 2 };
            let g = |n: &str| arg_val(args, n).and_then(|s| s.parse::<u64>().ok()).unwrap_or(0);
            runner::run_shard(
                &spec,
                &arg_val(args, "--family").unwrap_or_default(),
                &arg_val(args, "--tier").unwrap_or_default(),
                g("--seed"),
                g("--shard"),
                g("--of").max(1),
                g("--count"),
                &arg_val(args, "--stopfile").unwrap_or_default(),
            )
        }
        "merge-parts" => {
            let prop = arg_val(args, "--prop").unwrap_or_default();
            let parts: Vec<String> = arg_val(args, "--parts").unwrap_or_default().split(',').map(|s| s.to_string()).collect();
            let tier = arg_val(args, "--tier").or_else(|| std::env::var("VERIF_TIER").ok()).unwrap_or_else(|| "quick".into());
            let seed = arg_val(args, "--seed").or_else(|| std::env::var("VERIF_SEED").ok()).and_then(|s| s.parse().ok()).unwrap_or(1u64);
            runner::merge_parts(&prop, &parts, seed, &tier)
        }
        "export-c" => {
            let g = |n: &str| arg_val(args, n).and_then(|s| s.parse::<u64>().ok()).unwrap_or(0);
            let seed = arg_val(args, "--seed").or_else(|| std::env::var("VERIF_SEED").ok()).and_then(|s| s.parse().ok()).unwrap_or(1u64);
            export::export_c(seed, g("--count"), g("--shards").max(1), &arg_val(args, "--out").unwrap_or_default(), arg_val(args, "--tier").as_deref() == Some("thorough"))
        }
        "export-c-one" => {
            let g = |n: &str| arg_val(args, n).and_then(|s| s.parse::<u64>().ok()).unwrap_or(0);
            export::export_one(g("--seed"), g("--index"), &arg_val(args, "--out").unwrap_or_default(), arg_val(args, "--tier").as_deref() == Some("thorough"))
        }
        "digest-plan" => runner::digest_plan(args.get(2).map(|s| s.as_str()).unwrap_or("")),
        "child" => match (args.get(2).map(|s| s.as_str()), args.get(3), args.get(4)) {
            (Some("hash-file"), Some(how), Some(path)) => cli::child_hash_file(how, path),
            (Some("first-use"), Some(path), _) => judges::child_first_use(path),
            _ => 2,
        },
        "replay" => {
            let Some(p) = args.get(2) else {
                eprintln!("usage: b3sim replay <file>");
                return 2;
            };
            runner::replay(p, args.iter().any(|a| a == "--quiet"))
        }
        "gen" => {
            let prop = arg_val(args, "--prop").unwrap_or_default();
            let fam = arg_val(args, "--family").unwrap_or_default();
            let i: u64 = arg_val(args, "--i").and_then(|s| s.parse().ok()).unwrap_or(0);
            let seed: u64 = arg_val(args, "--seed").and_then(|s| s.parse().ok()).unwrap_or(1);
            let Some(spec) = checks::spec(&prop) else { return 2 };
            let avail = exec::available_levels();
            let g = gen::GenCtx { tier_thorough: false, avail: &runner::GEN_LEVELS };
            for f in &spec.families {
                if f.name == fam || fam.is_empty() {
                    println!("{}", serde_json::to_string_pretty(&(f.gen)(seed, i, &g)).unwrap());
                    break;
                }
            }
            0
        }
        "selftest" => match args.get(2).map(|s| s.as_str()) {
            Some("det-shard") => {
                let g = |n: &str| arg_val(args, n).and_then(|s| s.parse::<u64>().ok()).unwrap_or(0);
                let specs: Vec<_> = checks::all_props().iter().filter_map(|p| checks::spec(p)).collect();
                runner::selftest_det_shard(&specs, g("--seeds"), g("--shard"), g("--of").max(1))
            }
            Some("determinism") => {
                let seeds = arg_val(args, "--seeds").and_then(|s| s.parse().ok()).unwrap_or(300u64);
                let specs: Vec<_> = checks::all_props().iter().filter_map(|p| checks::spec(p)).collect();
                runner::selftest_determinism(&specs, seeds, jobs)
            }
            _ => {
                eprintln!("usage: b3sim selftest model|determinism");
                2
            }
        },
        _ => {
            eprintln!("usage: b3sim run --prop <id> --tier quick|thorough [--seed N] [--jobs N] | replay <file> | selftest model|determinism | gen ...");
            2
        }
    }
}
