//! Lean flavour (`--no-default-features --features par`): blake3 is built without zeroize and serde (without `par`
//! also without rayon and mmap), so that code which
//! exists only when one of those features is OFF is compiled into a harness build at all. Parallel and mapped
//! adapters fall back to update / update_reader on the same bytes; operations that make no sense without the missing
//! API (zeroize, special files, the b3sum parser) are skipped (see `needs_full`).
#![allow(dead_code)]

pub const FULL: bool = cfg!(feature = "full");

#[cfg(not(feature = "par"))]
pub trait LeanHasher {
    fn update_rayon(&mut self, _input: &[u8]) -> &mut Self;
    fn update_mmap(&mut self, _path: impl AsRef<std::path::Path>) -> std::io::Result<&mut Self>;
    fn update_mmap_rayon(&mut self, _path: impl AsRef<std::path::Path>) -> std::io::Result<&mut Self>;
}

#[cfg(not(feature = "par"))]
impl LeanHasher for blake3::Hasher {
    // the lean build has no parallel or mapped adapters: the same bytes go through update / update_reader, so that
    // plans keep their meaning (a C09 shard is still fed completely)
    fn update_rayon(&mut self, input: &[u8]) -> &mut Self {
        self.update(input)
    }
    fn update_mmap(&mut self, path: impl AsRef<std::path::Path>) -> std::io::Result<&mut Self> {
        let f = std::fs::File::open(path)?;
        self.update_reader(f)
    }
    fn update_mmap_rayon(&mut self, path: impl AsRef<std::path::Path>) -> std::io::Result<&mut Self> {
        let f = std::fs::File::open(path)?;
        self.update_reader(f)
    }
}

#[cfg(not(feature = "full"))]
pub trait LeanZeroize {
    fn zeroize(&mut self);
}
#[cfg(not(feature = "full"))]
impl LeanZeroize for blake3::Hasher {
    fn zeroize(&mut self) {
        unreachable!("lean flavour: skipped before the call")
    }
}
#[cfg(not(feature = "full"))]
impl LeanZeroize for blake3::OutputReader {
    fn zeroize(&mut self) {
        unreachable!("lean flavour: skipped before the call")
    }
}
#[cfg(not(feature = "full"))]
impl LeanZeroize for blake3::Hash {
    fn zeroize(&mut self) {
        unreachable!("lean flavour: skipped before the call")
    }
}

/// does this operation need API that this build does not have?
pub fn needs_full(op: &crate::plan::Op) -> bool {
    use crate::plan::Op;
    match op {
        Op::Zeroize { .. } => !cfg!(feature = "full"),
        Op::ParallelRayon { .. } | Op::FileKinds { .. } | Op::SysFault { .. } | Op::HugeFile { .. } | Op::CliSpecial { .. } => !cfg!(feature = "par"),
        Op::PathRoundTrip { .. } | Op::ParseMutations { .. } | Op::ParseLine { .. } => !cfg!(feature = "par"),
        _ => false,
    }
}
