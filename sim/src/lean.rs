//! Lean flavour (`--no-default-features`): blake3 is built without rayon, mmap, zeroize and serde, so that code which
//! exists only when one of those features is OFF is compiled into a harness build at all. The operations that need
//! the missing API are skipped before they reach the calls below (see `needs_full`); these stand-ins only keep the
//! interpreter compiling.
#![allow(dead_code)]

pub const FULL: bool = cfg!(feature = "full");

#[cfg(not(feature = "full"))]
pub trait LeanHasher {
    fn update_rayon(&mut self, _input: &[u8]) -> &mut Self;
    fn update_mmap(&mut self, _path: impl AsRef<std::path::Path>) -> std::io::Result<&mut Self>;
    fn update_mmap_rayon(&mut self, _path: impl AsRef<std::path::Path>) -> std::io::Result<&mut Self>;
}

#[cfg(not(feature = "full"))]
impl LeanHasher for blake3::Hasher {
    fn update_rayon(&mut self, _input: &[u8]) -> &mut Self {
        unreachable!("lean flavour: skipped before the call")
    }
    fn update_mmap(&mut self, _path: impl AsRef<std::path::Path>) -> std::io::Result<&mut Self> {
        unreachable!("lean flavour: skipped before the call")
    }
    fn update_mmap_rayon(&mut self, _path: impl AsRef<std::path::Path>) -> std::io::Result<&mut Self> {
        unreachable!("lean flavour: skipped before the call")
    }
}

#[cfg(not(feature = "full"))]
pub trait LeanZeroize {
    fn zeroize(&mut self);
}
#[cfg(not(feature = "full"))]
impl LeanZeroize for blake3::Hasher {
    fn zeroize(&mut self) {
        unreachable!("lean flavour: skipped before the call")
    }
}
#[cfg(not(feature = "full"))]
impl LeanZeroize for blake3::OutputReader {
    fn zeroize(&mut self) {
        unreachable!("lean flavour: skipped before the call")
    }
}
#[cfg(not(feature = "full"))]
impl LeanZeroize for blake3::Hash {
    fn zeroize(&mut self) {
        unreachable!("lean flavour: skipped before the call")
    }
}

/// does this operation need API that the lean flavour does not have?
pub fn needs_full(op: &crate::plan::Op) -> bool {
    use crate::plan::{AbsorbVia, Op};
    match op {
        Op::Absorb { via, .. } => matches!(via, AbsorbVia::Rayon { .. } | AbsorbVia::Mmap | AbsorbVia::MmapRayon | AbsorbVia::SharedFile { how: 0 | 1 }),
        Op::ParallelRayon { .. } | Op::Zeroize { .. } | Op::FileKinds { .. } | Op::SysFault { .. } => true,
        Op::PathRoundTrip { .. } | Op::ParseMutations { .. } | Op::ParseLine { .. } => true,
        _ => false,
    }
}
