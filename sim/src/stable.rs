//! Reference arguments at reused addresses. What the library computes from a key, a context string or a chaining
//! value depends on the bytes behind the reference only - not on where they live, nor on what was at that address
//! during an earlier call. Every such argument is therefore passed from one per-thread buffer that is reused for all
//! calls, and each call is preceded by the same call on a *different* value of the same length at the same address
//! (result discarded). A memo keyed by pointer (and length) then answers the real call with the decoy's result,
//! deterministically, instead of once in a while when the allocator happens to reuse a block.
use std::cell::RefCell;

thread_local! {
    static CTX: RefCell<String> = RefCell::new(String::with_capacity(8192));
    static SLOTS: RefCell<Vec<&'static mut [u8; 32]>> = const { RefCell::new(Vec::new()) };
    static HASHES: RefCell<Vec<&'static mut blake3::Hash>> = const { RefCell::new(Vec::new()) };
}

fn decoy_str(s: &str) -> Option<String> {
    let swapped: String = s.chars().map(|c| match c { 'a' => 'B', 'B' => 'a', '0' => '-', '-' => '0', ':' => '~', '~' => ':', ' ' => '\n', '\n' => ' ', o => o }).collect();
    if swapped != s {
        return Some(swapped);
    }
    let rev: String = s.chars().rev().collect();
    if rev != s {
        return Some(rev);
    }
    None
}

/// `f(context)` with the context at the thread's reused address, after `f(decoy)` at the same address
pub fn with_ctx<T>(s: &str, f: impl Fn(&str) -> T) -> T {
    CTX.with(|b| {
        let mut b = b.borrow_mut();
        if let Some(d) = decoy_str(s) {
            b.clear();
            b.push_str(&d);
            let _ = f(&b);
        }
        b.clear();
        b.push_str(s);
        f(&b)
    })
}

fn slot(i: usize) -> *mut [u8; 32] {
    SLOTS.with(|v| {
        let mut v = v.borrow_mut();
        while v.len() <= i {
            v.push(Box::leak(Box::new([0u8; 32])));
        }
        &mut *v[i] as *mut [u8; 32]
    })
}

/// `f(key)` with the 32 bytes at the thread's reused address number `i`, after `f(decoy)` at the same address
pub fn with_key<T>(i: usize, k: &[u8; 32], f: impl Fn(&[u8; 32]) -> T) -> T {
    let p = slot(i);
    // the slot is only ever touched by its own thread, inside this function
    unsafe {
        *p = *k;
        (*p)[0] ^= 1;
        let _ = f(&*p);
        *p = *k;
        f(&*p)
    }
}

/// the 32 bytes placed at the thread's reused address number `i` (after a decoy has been there): for arguments
/// that have to outlive one call
pub fn place(i: usize, k: &[u8; 32]) -> &'static [u8; 32] {
    let p = slot(i);
    unsafe {
        *p = *k;
        &*p
    }
}

pub fn place_decoy(i: usize, k: &[u8; 32]) -> &'static [u8; 32] {
    let p = slot(i);
    unsafe {
        *p = *k;
        (*p)[0] ^= 1;
        &*p
    }
}

fn hslot(i: usize) -> *mut blake3::Hash {
    HASHES.with(|v| {
        let mut v = v.borrow_mut();
        while v.len() <= i {
            v.push(Box::leak(Box::new(blake3::Hash::from_bytes([0u8; 32]))));
        }
        &mut *v[i] as *mut blake3::Hash
    })
}

/// `f(&Hash, &Hash)` on the thread's two reused Hash objects, after the same call on decoy values
pub fn with_hashes<T>(l: &[u8; 32], r: &[u8; 32], f: impl Fn(&blake3::Hash, &blake3::Hash) -> T) -> T {
    let (pl, pr) = (hslot(0), hslot(1));
    unsafe {
        let (mut dl, mut dr) = (*l, *r);
        dl[0] ^= 1;
        dr[31] ^= 0x80;
        *pl = blake3::Hash::from_bytes(dl);
        *pr = blake3::Hash::from_bytes(dr);
        let _ = f(&*pl, &*pr);
        *pl = blake3::Hash::from_bytes(*l);
        *pr = blake3::Hash::from_bytes(*r);
        f(&*pl, &*pr)
    }
}
