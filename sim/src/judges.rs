//! Judges that compare two executions of the same plan.

use crate::exec::ExecOut;
use crate::plan::*;

pub fn self_compose(_plan: &Plan, out: ExecOut) -> (ExecOut, Option<Violation>, Vec<Level>) {
    (out, None, vec![])
}

pub fn solo(_plan: &Plan, out: ExecOut) -> (ExecOut, Option<Violation>, Vec<Level>) {
    (out, None, vec![])
}
