//! Judges that compare two executions of the same plan.

use crate::exec::ExecOut;
use crate::plan::*;

/// C17 self-composition: the same plan with every secret byte (keys, contexts, inputs) swapped
/// must print identical Debug text and leave secret-independent memory behind zeroize().
pub fn self_compose(plan: &Plan, out: ExecOut) -> (ExecOut, Option<Violation>, Vec<Level>) {
    let mut pb = plan.clone();
    pb.cfg.secret_xor = if plan.cfg.secret_xor == 0 { 0x5A } else { 0 };
    let ob = crate::exec::exec(&pb);
    if let Some(mut v) = ob.violation.clone() {
        v.detail = format!("[secrets swapped] {}", v.detail);
        return (ob, Some(v), vec![]);
    }
    if ob.harness_error.is_some() {
        return (ob, None, vec![]);
    }
    let a_owned = out.stats.blobs.clone();
    let a = &a_owned;
    let b = &ob.stats.blobs;
    let mk = |class: &str, i: usize, detail: String| Violation {
        property: plan.prop.clone(),
        class: class.into(),
        task: a.get(i).map_or(0, |x| x.0),
        op: 0,
        op_kind: if class == "leak-debug" { "DebugFmt".into() } else { "Zeroize".into() },
        detail,
    };
    if a.len() != b.len() {
        return (out, None, vec![]); // different skips: nothing comparable (never the case for generated plans)
    }
    for (i, (x, y)) in a.iter().zip(b.iter()).enumerate() {
        if x.2 != y.2 {
            continue;
        }
        if x.1 == 0 {
            if x.3 != y.3 {
                let d = format!(
                    "Debug output depends on the secrets: {:?} vs {:?}",
                    String::from_utf8_lossy(&x.3),
                    String::from_utf8_lossy(&y.3)
                );
                return (out, Some(mk("leak-debug", i, d)), vec![]);
            }
        } else {
            let (qa, qb) = (&x.4, &y.4);
            let mut run = 0;
            for k in 0..qa.len().min(qb.len()) {
                if qa[k] != qb[k] {
                    run += 1;
                    if run >= 8 {
                        let d = format!("{}: memory after zeroize() still depends on the secrets at object offset {}", x.2, k + 1 - 8);
                        return (out, Some(mk("leak-zeroize", i, d)), vec![]);
                    }
                } else {
                    run = 0;
                }
            }
        }
    }
    (out, None, vec![])
}

/// C18: every task's results under interleaving must equal its results when run alone.
pub fn solo(plan: &Plan, out: ExecOut) -> (ExecOut, Option<Violation>, Vec<Level>) {
    for (ti, t) in plan.tasks.iter().enumerate() {
        let mut p = plan.clone();
        p.tasks = vec![t.clone()];
        p.schedule = Schedule::Explicit { choices: vec![] };
        let so = crate::exec::exec(&p);
        if let Some(mut v) = so.violation.clone() {
            // the program fails even alone: not an isolation matter, but still a wrong result
            v.task = ti;
            v.detail = format!("[task run alone] {}", v.detail);
            return (so, Some(v), vec![]);
        }
        if so.harness_error.is_some() {
            return (so, None, vec![]);
        }
        if so.op_digests[0] != out.op_digests[ti] {
            let oi = so.op_digests[0].iter().zip(out.op_digests[ti].iter()).position(|(a, b)| a != b).unwrap_or(0);
            let v = Violation {
                property: plan.prop.clone(),
                class: "not-isolated".into(),
                task: ti,
                op: oi,
                op_kind: t.ops[oi].kind().into(),
                detail: format!("task {ti} op {oi} returned a different result under interleaving than when run alone"),
            };
            return (out, Some(v), vec![]);
        }
    }
    (out, None, vec![])
}


/// child side of the first-use tier: every task of the plan on its own real thread, released by a barrier
/// before anything in this process has touched the library; prints the per-task operation digests.
pub fn child_first_use(plan_path: &str) -> i32 {
    let Ok(txt) = std::fs::read_to_string(plan_path) else { return 2 };
    let Ok(plan) = serde_json::from_str::<Plan>(&txt) else { return 2 };
    let n = plan.tasks.len();
    let barrier = std::sync::Arc::new(std::sync::Barrier::new(n));
    let mut hs = Vec::new();
    for t in plan.tasks.iter() {
        let mut p = plan.clone();
        p.tasks = vec![t.clone()];
        p.schedule = Schedule::Explicit { choices: vec![] };
        let b = barrier.clone();
        hs.push(
            std::thread::Builder::new()
                .stack_size(crate::runner::WORKER_STACK)
                .spawn(move || {
                    b.wait();
                    let o = crate::exec::exec(&p);
                    (o.op_digests.into_iter().next().unwrap_or_default(), o.violation.map(|v| v.detail))
                })
                .expect("spawn"),
        );
    }
    let res: Vec<(Vec<u64>, Option<String>)> = hs.into_iter().map(|h| h.join().unwrap_or((vec![], Some("thread panicked".into())))).collect();
    println!("{}", serde_json::to_string(&res).unwrap());
    0
}

pub fn first_use(plan: &Plan, out: ExecOut) -> (ExecOut, Option<Violation>, Vec<Level>) {
    // solo digests, one task at a time, in this (already warm) process
    let mut solo: Vec<Vec<u64>> = Vec::new();
    for t in &plan.tasks {
        let mut p = plan.clone();
        p.tasks = vec![t.clone()];
        p.schedule = Schedule::Explicit { choices: vec![] };
        let so = crate::exec::exec(&p);
        if so.violation.is_some() || so.harness_error.is_some() {
            let v = so.violation.clone();
            return (so, v, vec![]);
        }
        solo.push(so.op_digests[0].clone());
    }
    static CTR: std::sync::atomic::AtomicUsize = std::sync::atomic::AtomicUsize::new(0);
    let path = std::env::temp_dir().join(format!("b3sim.firstuse.{}.{}.json", std::process::id(), CTR.fetch_add(1, std::sync::atomic::Ordering::Relaxed)));
    if std::fs::write(&path, serde_json::to_string(plan).unwrap()).is_err() {
        return (out, None, vec![]);
    }
    let o = std::process::Command::new(std::env::current_exe().unwrap()).arg("child").arg("first-use").arg(&path).output();
    let _ = std::fs::remove_file(&path);
    let Ok(o) = o else { return (out, None, vec![]) };
    let line = String::from_utf8_lossy(&o.stdout).lines().last().unwrap_or("").to_string();
    let Ok(res) = serde_json::from_str::<Vec<(Vec<u64>, Option<String>)>>(&line) else {
        let v = Violation { property: plan.prop.clone(), class: "panic".into(), task: 0, op: 0, op_kind: "".into(), detail: format!("fresh process running the tasks on real threads ended with {:?} and no result", o.status.code()) };
        return (out, Some(v), vec![]);
    };
    for (ti, (digs, vio)) in res.iter().enumerate() {
        if let Some(d) = vio {
            let v = Violation { property: plan.prop.clone(), class: "not-isolated".into(), task: ti, op: 0, op_kind: "".into(), detail: format!("[first use, real threads] {d}") };
            return (out, Some(v), vec![]);
        }
        if ti < solo.len() && *digs != solo[ti] {
            let oi = digs.iter().zip(solo[ti].iter()).position(|(a, b)| a != b).unwrap_or(0);
            let v = Violation {
                property: plan.prop.clone(),
                class: "not-isolated".into(),
                task: ti,
                op: oi,
                op_kind: plan.tasks[ti].ops.get(oi).map_or("", |o| o.kind()).into(),
                detail: format!("task {ti} op {oi}: result in a fresh process with all tasks started together differs from the solo run"),
            };
            return (out, Some(v), vec![]);
        }
    }
    (out, None, vec![])
}
