//! Registry: which families decide which property.

use crate::gen;
use crate::runner::{CheckSpec, Family, Judge};

pub fn all_props() -> Vec<&'static str> {
    vec!["C02", "C03", "C04", "C06", "C07", "C08", "C09", "C10", "C11", "C12", "C13", "C16", "C17", "C18"]
}

const REAL_RUST: &[&str] = &["/repo/src (blake3 crate, built from the working tree with --cfg blake3_team_blake3_verif)", "rayon-core", "memmap2", "digest", "zeroize", "arrayvec", "kernel VFS (scratch files)"];

pub fn spec(prop: &str) -> Option<CheckSpec> {
    match prop {
        "C11" => Some(CheckSpec {
            prop: "C11",
            level: "fault_enumeration",
            rule: "Each run is one plan: a source byte string delivered through update_reader / &mut dyn Read / io::copy by a scripted reader (short reads, Interrupted, hard errors, early EOF, junk beyond n; random scripts also contain storms of 2..500 consecutive Interrupted results). Per base plan the fault kinds {Interrupted, Err, 1-byte read, early EOF} are enumerated at every call index 0..48 of the script, plus one random faulty script and the fault-free base. Oracle: Ok => reader reached EOF and the hasher equals the one-shot hash of exactly the bytes yielded; Err => the injected error (kind and identity) and the hasher equals the one-shot hash of the bytes yielded before it; count() equals bytes yielded; no read after EOF/error. File half: update_mmap, update_mmap_rayon and update_reader(File) on scratch files of lengths around the 16 KiB threshold must all equal the one-shot hash (update_mmap_rayon in pools of 1, 2 and 4 threads); one sparse file of 2^32 + k bytes is hashed by path and compared with update() on the same bytes. distinct_nontrivial = distinct (partial-chunk class x stack popcount x alignment x mode x adapter) hasher state shapes reached.",
            families: vec![
                Family { name: "c11-reader", gen: gen::c11_reader, quick: 120_000, thorough: 3_000_000, judge: Judge::Exec },
                Family { name: "c11-file", gen: gen::c11_file, quick: 3_000, thorough: 60_000, judge: Judge::Exec },
                Family { name: "c11-special", gen: gen::c11_special, quick: 600, thorough: 20_000, judge: Judge::Exec },
                Family { name: "c11-bigwrite", gen: gen::c11_bigwrite, quick: 1_500, thorough: 40_000, judge: Judge::Exec },
                Family { name: "c11-syscall", gen: gen::c11_syscall, quick: 320, thorough: 10_000, judge: Judge::Exec },
                Family { name: "c11-hugefile", gen: gen::c11_hugefile, quick: 1, thorough: 3, judge: Judge::Exec },
            ],
            real: REAL_RUST.to_vec(),
            stubs: vec!["the reader behind update_reader is the simulator's SimReader (the seam under test)"],
            assumptions: vec!["oracle = the crate's own one-shot functions on the yielded bytes (as the property is worded)", "std::io::copy and std::fs behave as documented"],
        }),
        "C02" => Some(CheckSpec {
            prop: "C02",
            level: "exploration",
            rule: "Each run is one plan: 1-3 hashers (all modes) in a world of 1-4 caller tasks; each message is cut by a delivery script into fragments (boundary-biased sizes, zero-length included), each fragment delivered through an adapter (update, Write::write, write_all, io::copy, update_reader, update_rayon on a real pool, scripted-Join update, update_mmap*), interleaved with count / finalize / finalize_xof / clone (clone diverges, possibly after moving to another task) / concurrent finalize of one &Hasher from three tasks / moving the hasher between tasks. After every call count() must equal the bytes absorbed by that instance; every finalize must equal the crate's one-shot function on exactly those bytes and every extended output a single-update twin. distinct_nontrivial = distinct hasher state shapes (partial-chunk class x stack popcount x alignment x mode x adapter) + distinct schedule signatures of multi-task runs.",
            families: vec![Family { name: "c02", gen: gen::c02, quick: 150_000, thorough: 4_000_000, judge: Judge::Exec }],
            real: REAL_RUST.to_vec(),
            stubs: vec!["caller threads are simulated tasks under the baton scheduler (real OS threads, one runs at a time)"],
            assumptions: vec!["oracle = the crate's own one-shot functions (as the property is worded); for output beyond 32 bytes a fresh hasher fed by a single update"],
        }),
        "C03" => Some(CheckSpec {
            prop: "C03",
            level: "exploration",
            rule: "Each run: 1-2 OutputReaders from roots of all kinds, driven by histories of fill / Read::read / read_exact / take().read_to_end / io::copy / set_position / seek(Start|Current|End) / position / clone (clone or reader may move to another task). Positions are log-uniform over [0, 2^64-1) with spikes around block counter 2^32, 2^38, 2^63 and the end of the stream; seeks that must fail (negative targets, every End) are injected anywhere and must leave the position unchanged. Oracle: SpecModel root node, block k computed on demand; every read must fill the whole buffer and advance the position by n. Forward seeks past 2^64-1 are not generated (the property is silent on them). distinct_nontrivial = distinct (adapter x position-in-block x length class x counter side of 2^32) read shapes + hasher shapes + schedule signatures.",
            families: vec![Family { name: "c03", gen: gen::c03, quick: 200_000, thorough: 6_000_000, judge: Judge::Exec }],
            real: REAL_RUST.to_vec(),
            stubs: vec![],
            assumptions: vec!["SpecModel (independent implementation of the paper, pinned by the frozen official vectors and hash(\"\"), hash(\"abc\"))"],
        }),
        "C10" => Some(CheckSpec {
            prop: "C10",
            level: "exploration",
            rule: "Each run: a pool of 1-2 long-lived hashers serving 3-5 simulated clients each; a client runs a random prefix (set_input_offset at a valid offset, updates through any adapter, finalize / finalize_xof / finalize_non_root, clone) and is cancelled at an arbitrary operation; the pool calls reset() and hands the hasher (possibly on another task) to the next client. Oracle: a freshly constructed twin of the same mode executes the next client's operations in lockstep (count, finalize, finalize_non_root must agree) and the crate's one-shot function on the bytes absorbed since the reset; no in-domain operation may panic. Clones and originals are checked against their own byte strings. distinct_nontrivial = distinct state shapes at reset/absorb/finalize + schedule signatures.",
            families: vec![Family { name: "c10", gen: gen::c10, quick: 150_000, thorough: 4_000_000, judge: Judge::Exec }],
            real: REAL_RUST.to_vec(),
            stubs: vec![],
            assumptions: vec!["oracle = freshly constructed twin + crate one-shot functions; SpecModel for non-root chaining values"],
        }),
        "C08" => Some(CheckSpec {
            prop: "C08",
            level: "exploration",
            rule: "Each run: update_with_join (the generic function behind update_rayon) driven through the scripted Join hook: per recursive split the plan decides left-first / right-first / concurrent (concurrent halves become child tasks interleaved by the baton scheduler at every kernel dispatch; pool width 1-8, saturated pools run inline). Inputs of 2..300 chunks (1024 thorough) after odd prefixes, levels forced so that degree 1/4/8/16 recursion shapes all occur. A sixth of the runs use real rayon pools (width 1,2,4,16, and the process's global pool, which the harness configures at start-up the way an application would) and update_mmap_rayon (large regular files, and a large sysfs file that cannot be mapped, hashed repeatedly). Oracle: the state must be what serial update leaves: count(), finalize and 131 XOF bytes equal the one-shot function on the bytes absorbed, and the continuation (one more fragment, finalize again) agrees too. distinct_nontrivial = distinct schedule signatures + state shapes.",
            families: vec![
                Family { name: "c08", gen: gen::c08, quick: 60_000, thorough: 2_000_000, judge: Judge::Exec },
                Family { name: "c08-c-tbb", gen: gen::c08_c, quick: 30_000, thorough: 1_000_000, judge: Judge::Exec },
                Family { name: "c08-bigmmap", gen: gen::c08_bigmmap, quick: 96, thorough: 3_000, judge: Judge::Exec },
            ],
            real: REAL_RUST.to_vec(),
            stubs: vec!["the thread pool behind Join is the simulator (scripted VerifJoin hook) in 5/6 of the runs; real rayon-core in the rest", "C blake3_hasher_update_tbb: see c06/c08-c families (oneTBB absent; the harness implements the TBB link seam)"],
            assumptions: vec!["interleaving granularity = kernel dispatch (hook H2); finer-grained races are left to the Miri tier"],
        }),
        "C18" => Some(CheckSpec {
            prop: "C18",
            level: "exploration",
            rule: "Each run: 2-6 simulated caller tasks, each with its own program over its own instances (hasher histories through update/Write/Read adapters, XOF reader histories with seeks, one-shot calls), each task forced to its own SIMD level, interleaved by the baton scheduler at every kernel dispatch, detect() call, reader call and operation boundary (uniform / sticky / bursty schedules). Oracle (Solo): every task program is also executed alone and every operation must return the same bytes under interleaving; the per-operation oracles of C02/C03 apply as well. Readers of a task may be hit by runs of Interrupted results (8-500 in a row) or fail. Shared-file family: independent hashers on several tasks hash the same files through update_mmap, update_reader(File) and update_mmap_rayon (the latter on a one-thread pool whose worker carries the calling task's scheduler identity, so the inside of the call interleaves deterministically with the other tasks). Miri part (seeded scheduler, preemption at any basic block, race detector; quick: 40 interleavings, thorough: ~220): disjoint-instance programs, and clones of one OutputReader / Hasher with a history handed to 3-4 threads, each thread's results compared with the same program run alone. distinct_nontrivial = distinct schedule signatures + state shapes.",
            families: vec![
                Family { name: "c18", gen: gen::c18, quick: 25_000, thorough: 600_000, judge: Judge::Solo },
                Family { name: "c18-mixed-c", gen: gen::c18_mixed, quick: 30_000, thorough: 500_000, judge: Judge::Solo },
                Family { name: "c18-streams", gen: gen::c18_streams, quick: 400, thorough: 3_000, judge: Judge::Solo },
                Family { name: "c18-firstuse", gen: gen::c18_firstuse, quick: 480, thorough: 20_000, judge: Judge::FirstUse },
                Family { name: "c18-sharedfile", gen: gen::c18_sharedfile, quick: 3_000, thorough: 30_000, judge: Judge::Solo },
            ],
            real: REAL_RUST.to_vec(),
            stubs: vec!["Rust cpufeatures detection cache is real but not schedulable (macro-generated private static): first-use race covered only by the process-level tier"],
            assumptions: vec!["interleaving granularity = hook sites; state that two tasks could corrupt for each other must live across a kernel call to be seen here"],
        }),
        "C04" => Some(CheckSpec {
            prop: "C04",
            level: "exploration",
            rule: "Exact replay across configurations: every plan of the C02 (histories), C03 (XOF/seek), C08 (scripted join) and C11 (reader) families is executed once per SIMD level this build can run (Portable, SSE2, SSE4.1, AVX2, AVX-512 forced through the detect() hook, plus real detection); the per-operation result digests must be identical in every configuration, and each execution is also judged by its own oracles. The check script repeats this for the default (assembly), prefer_intrinsics and pure builds and compares the per-run digests between builds. distinct_nontrivial = distinct state shapes + schedule signatures.",
            families: vec![
                Family { name: "c04-c02", gen: gen::c04_hist, quick: 12_000, thorough: 200_000, judge: Judge::CompareLevels },
                Family { name: "c04-c03", gen: gen::c04_xof, quick: 20_000, thorough: 200_000, judge: Judge::CompareLevels },
                Family { name: "c04-c08", gen: gen::c04_join, quick: 4_000, thorough: 70_000, judge: Judge::CompareLevels },
                Family { name: "c04-c11", gen: gen::c04_reader, quick: 8_000, thorough: 100_000, judge: Judge::CompareLevels },
                Family { name: "c04-c09giant", gen: gen::c04_giant, quick: 5_000, thorough: 100_000, judge: Judge::CompareLevels },
                Family { name: "c04-c09", gen: gen::c04_cluster, quick: 2_000, thorough: 35_000, judge: Judge::CompareLevels },
            ],
            real: REAL_RUST.to_vec(),
            stubs: vec![],
            assumptions: vec!["a level can only be forced if the CPU supports it (all five do here)", "MSVC .asm, NEON and wasm32 kernels cannot run here and are outside the claim"],
        }),
        "C09" => Some(CheckSpec {
            prop: "C09",
            level: "exploration",
            rule: "Cluster family: an input > 1 chunk is decomposed (recursive left_subtree_len splits stopped at random depths, fixed 2^j-chunk groups, or a mix) into shards assigned to 1-6 simulated worker tasks; each worker hashes its shard with set_input_offset + any update fragmentation/adapter + finalize_non_root and sends the chaining value to the coordinator task; injected faults: worker crash mid-shard (partial hasher abandoned, shard recomputed on a fresh hasher, possibly elsewhere), duplicated and reordered CV messages, hand-over of a half-fed subtree hasher to a clone (clone / clone_from into a used hasher, original dropped). Context keys (hash_derive_key_context) are derived from one reused per-thread buffer right after a different context of the same length at the same address, and compared with the model. The coordinator merges by tree position (merge_subtrees_non_root / _root / _root_xof). Oracle: every shard CV and every merge = SpecModel; the root hash/XOF = the crate's one-shot function / finalize_xof on the whole input. Giant family: a virtual input length up to 2^64-1 is walked down with left_subtree_len (each value compared with the model's largest power of two below n) to a <= 64 KiB window at a chunk-aligned offset up to 2^64-1024 (chunk counters >= 2^32 and up to 2^54-1); only the window is hashed, as one subtree and as two merged halves, and compared with the model; max_subtree_len is compared with 1024*2^tz at every shard start. distinct_nontrivial = distinct state shapes + schedule signatures.",
            families: vec![
                Family { name: "c09-cluster", gen: gen::c09, quick: 25_000, thorough: 800_000, judge: Judge::Exec },
                Family { name: "c09-giant", gen: gen::c09_giant, quick: 25_000, thorough: 800_000, judge: Judge::Exec },
            ],
            real: REAL_RUST.to_vec(),
            stubs: vec!["the network between workers and coordinator is the simulator's in-memory mailbox (delivery order decided by the schedule)"],
            assumptions: vec!["SpecModel for subtree chaining values and the two length helpers", "crate one-shot functions for the whole-input comparison"],
        }),
        "C16" => Some(CheckSpec {
            prop: "C16",
            level: "exploration",
            rule: "Traits family: hasher histories in which every step is issued through a RustCrypto trait surface chosen per operation (Update / Digest::update / Mac::update, FixedOutput on a clone, FixedOutputReset, ExtendableOutput on a clone, ExtendableOutputReset, XofReader::read, Reset, KeyInit::new, Digest::new, Mac::finalize, Digest::finalize); oracle = the inherent-API semantics kept by the shadow state (crate one-shot on the bytes absorbed since the last reset, fresh twin in lockstep after each resetting variant, SpecModel stream for readers), so the state left behind by *_reset is observed through the continuation. Guts family: whole inputs hashed the legacy way (guts::ChunkState per chunk under any update fragmentation, parent_cv up the tree, is_root only at the real root) must equal SpecModel node by node and the one-shot hash at the root; isolated chunks at counters up to 2^64-1. distinct_nontrivial = distinct state shapes reached.",
            families: vec![
                Family { name: "c16-traits", gen: gen::c16_traits, quick: 100_000, thorough: 3_000_000, judge: Judge::Exec },
                Family { name: "c16-guts", gen: gen::c16_guts, quick: 60_000, thorough: 2_000_000, judge: Judge::Exec },
            ],
            real: REAL_RUST.to_vec(),
            stubs: vec![],
            assumptions: vec!["crate inherent API semantics as decided by C02/C03/C10", "SpecModel for guts chaining values"],
        }),
        "C17" => Some(CheckSpec {
            prop: "C17",
            level: "exploration",
            rule: "Histories (keyed and derive modes emphasised; partial blocks >= 8 bytes, stack depth >= 2, readers mid-block; a quarter of the hashers are subtree hashers with a hazmat input offset) with probe instants chosen by the plan: at a probe the task formats {:?}/{:#?} of the Hasher / OutputReader, or snapshots the live object's memory, calls zeroize() and snapshots again (Hasher, OutputReader, Hash). Oracles: (in-run) the text contains no rendering of a key/CV/input word and no 8 consecutive non-zero bytes survive zeroize() unchanged; (self-composition) the same plan re-executed with every secret byte (keys, contexts, inputs) XOR-swapped must print byte-identical Debug text at every probe and leave memory that does not differ in any window of >= 8 bytes. distinct_nontrivial = distinct state shapes at the probes.",
            families: vec![Family { name: "c17", gen: gen::c17, quick: 60_000, thorough: 2_000_000, judge: Judge::SelfCompose }],
            real: REAL_RUST.to_vec(),
            stubs: vec![],
            assumptions: vec!["padding inside these types is < 8 bytes (true for the current layout), so 8-byte windows cannot be padding", "object memory is read through a raw pointer (release build, not Miri)"],
        }),
        "C06" => Some(CheckSpec {
            prop: "C06",
            level: "exploration",
            rule: "Each run drives the C library (c/blake3.c + dispatcher + every kernel; assembly flavour and C-intrinsics flavour both linked, chosen per hasher) through blake3_hasher_* only: initialiser in {init, init_keyed, init_derive_key, init_derive_key_raw (any bytes, embedded NUL, > 1 chunk)}, updates cut like the C02 delivery scripts (zero-length updates with a dangling pointer included; update_tbb with the simulator as the TBB seam in the tbb family), interleaved finalize(out_len) / finalize_seek(seek, out_len) with the C03 position distribution, reset, struct-copy clones; the CPU feature mask of the run is a random subset of the detected mask (AVX512VL without AVX512F included), or left undefined so that the dispatcher detects the CPU during the first call of the history. Derive-key contexts are passed from a reused buffer after a decoy of the same length at the same address. One run feeds 2^32 + k bytes in a single blake3_hasher_update call and compares the digest with the Rust crate fed the same bytes in pieces. Oracle: output = SpecModel S[seek..seek+out_len] = the Rust crate's bytes on the same history; hasher fields unchanged by finalize and by zero-length updates; reset = freshly initialised fields; both derive-key initialisers agree; canaries around every output buffer. distinct_nontrivial = distinct (flavour x state x seek alignment x length class) shapes.",
            families: vec![
                Family { name: "c06", gen: gen::c06, quick: 60_000, thorough: 4_000_000, judge: Judge::Exec },
                Family { name: "c06-tbb", gen: gen::c06_tbb, quick: 30_000, thorough: 1_000_000, judge: Judge::Exec },
                Family { name: "c06-hugein", gen: gen::c06_hugein, quick: 1, thorough: 6, judge: Judge::Exec },
            ],
            real: vec!["/repo/c: blake3.c, blake3_dispatch.c, blake3_portable.c, the four unix .S kernels (ca_ flavour) and blake3_{sse2,sse41,avx2,avx512}.c (ci_ flavour), compiled from the working tree by the harness build.rs", "/repo/src (Rust twin)"],
            stubs: vec!["oneTBB parallel_invoke (blake3_tbb.cpp is not compiled; the simulator implements blake3_compress_subtree_wide_join_tbb)"],
            assumptions: vec!["SpecModel", "BLAKE3_TESTING makes g_cpu_features settable; masks are subsets of what the CPU supports"],
        }),
        "C12" => Some(CheckSpec {
            prop: "C12",
            level: "exploration",
            rule: "The real b3sum binary (repository source, shadow manifest) runs as a process in a per-run sandbox directory. Hash family: file sets (sizes on both sides of 16 KiB, empty files, missing files, stdin as '-'), flag swarm over --keyed (stdin key of length 0..40), --derive-key, --length, --seek (C03 positions), --no-mmap, --num-threads, --raw, --no-names, --tag and combinations clap must refuse; oracle: stdout bytes = the library's extended output S[seek..seek+length] computed in the harness, in the documented line format; refused invocations print no digest and exit non-zero; exit status 0 iff every input was readable. Check family: checkfiles produced by real b3sum, then faults between the two runs (listed file deleted / modified / truncated / replaced by a directory; checkfile lines damaged by single-character edits, spliced malformed lines, CRLF rewriting, truncation, invalid UTF-8, a checkfile that does not exist, several checkfiles, checkfile on stdin); oracle: a line-by-line model of the documented format classifies every entry, exit status 0 iff all entries are OK, every later entry is still reported in order, a panic (exit 101) is a violation; for unreadable / non-UTF-8 checkfiles only the non-zero exit status is required. Many-failures family: 255..257, 512, 768, 1024, 65536(+256) failing entries spread over one or two checkfiles (the count that decides the exit status passes every 8- and 16-bit boundary); the hash family includes outputs of 64 KiB..1 MiB. distinct_nontrivial = distinct (flag set x outcome) classes.",
            families: vec![
                Family { name: "c12-hash", gen: gen::c12_hash, quick: 1_500, thorough: 30_000, judge: Judge::Exec },
                Family { name: "c12-check", gen: gen::c12_check, quick: 1_200, thorough: 30_000, judge: Judge::Exec },
                Family { name: "c12-syscall", gen: gen::c12_syscall, quick: 240, thorough: 8_000, judge: Judge::Exec },
                Family { name: "c12-manyfail", gen: gen::c12_manyfail, quick: 96, thorough: 3_000, judge: Judge::Exec },
            ],
            real: vec!["/repo/b3sum/src/main.rs built through /verif/shadow/b3sum (release)", "/repo/src", "clap, rayon-core, memmap2, anyhow, hex", "kernel VFS, pipes, process exit status"],
            stubs: vec!["wild::args_os = std::env::args_os (what wild is on Unix)", "clap without the wrap_help feature (terminal_size not in the cargo cache)"],
            assumptions: vec!["the library's extended output as decided by C02/C03", "the checkfile format model in cli.rs (written from what_does_check_do.md and the property text)"],
        }),
        "C13" => Some(CheckSpec {
            prop: "C13",
            level: "exploration",
            rule: "End-to-end family: files whose names are built from an alphabet rich in the characters that matter (space, double space, ') = ', 'BLAKE3 (', backslash, LF, CR, literal backslash-n, multi-byte UTF-8, invalid UTF-8 bytes, U+FFFD) and pairs engineered to collide under a sloppy parser (contents differ) are hashed by real b3sum (plain and --tag), the checkfile is optionally rewritten to CRLF / damaged, and verified by real b3sum --check: representable paths must come back OK under exactly their own name, unrepresentable ones must fail; some paths are nested directories of up to 3.9 KiB of characters that need escaping (checkfile lines of ~8 KiB), and plain and --tag checkfiles are concatenated into one mixed file. In-process family (b3sum's main.rs compiled into the harness by include!): for each path the line is built with the real filepath_to_string and parsed back with the real parse_check_line (must round-trip, or be rejected if unrepresentable), and every single-character substitution / insertion / deletion at every position (15 characters incl. NUL, U+FFFD, multi-byte, backslash, CR, LF) plus every truncation is parsed: never a panic, and Ok only with the path and 64 lowercase hex digits the documented format gives (if a refactoring changes the shape of these private items the harness build detects it and this family is skipped; the probe b3sum_private_parser_unavailable_skipped then appears in the evidence). distinct_nontrivial = distinct outcome classes.",
            families: vec![
                Family { name: "c13-parse", gen: gen::c13_parse, quick: 6_000, thorough: 300_000, judge: Judge::Exec },
                Family { name: "c13-e2e", gen: gen::c13_e2e, quick: 1_200, thorough: 30_000, judge: Judge::Exec },
            ],
            real: vec!["/repo/b3sum/src/main.rs (as a process, and compiled into the harness for parse_check_line / filepath_to_string / unescape)", "/repo/src"],
            stubs: vec!["wild::args_os = std::env::args_os", "clap without wrap_help"],
            assumptions: vec!["the checkfile format model in cli.rs: a line whose text after an optional leading backslash starts with 'BLAKE3 (' is tagged (split at the last ') = '), otherwise plain (split at the first double space); 64 lowercase hex digits; escapes \\\\ \\n \\r only; no NUL / U+FFFD / empty path", "'for arbitrary text' is only reached in the neighbourhood of real records (single-character damage and truncation)"],
        }),
        "C07" => Some(CheckSpec {
            prop: "C07",
            level: "exploration",
            rule: "What the simulator controls here is the environment of native code: where every caller-visible buffer lives and what surrounds a call. Kernel family: direct calls of every kernel of every flavour the CPU can run - unix assembly (ca_), C intrinsics and portable C (ci_), Windows-GNU assembly assembled for ELF and called through a Win64 trampoline (win_), and the crate's own kernels through Platform - with arguments inside the documented domain (num_inputs 0..2*degree+1, 1 or 16 blocks per input, counters near 2^32 and 2^64, any flag bytes, 1..33 XOF blocks); each buffer (inputs, input-pointer array, key/cv, block, out) sits flush before or after a PROT_NONE page or at a misaligned interior position, canaries fill the rest of its pages; assembly and C kernels are entered through a trampoline that plants per-call pseudo-random sentinels in the callee-saved registers of the ABI (SysV: rbx rbp r12-r15; Win64 additionally rdi rsi xmm6-xmm15) and compares them, rsp and DF afterwards. API families: the C06 histories and Rust reader/XOF histories with guard-placed inputs, outputs and (C) hasher objects. Huge family: one blake3_hasher_finalize(_seek) with out_len = 2^32 + {0..200} into a virtual window (a 2 MiB memfd mapped 2049 times, inaccessible page behind it), judged by the monitors only; or one blake3_hasher_update with input_len = 2^32 + k from a read-only zero mapping between inaccessible pages, digest compared with the Rust crate fed the same bytes in pieces. Monitors: SIGSEGV/SIGBUS/SIGILL (reported through a crash record, replayed in a child process), canaries, register sentinels. distinct_nontrivial = distinct (kernel x input count x block count x placement) shapes + API state shapes.",
            families: vec![
                Family { name: "c07-kernels", gen: gen::c07_kernels, quick: 60_000, thorough: 1_500_000, judge: Judge::Exec },
                Family { name: "c07-c-api", gen: gen::c07_capi, quick: 20_000, thorough: 600_000, judge: Judge::Exec },
                Family { name: "c07-rust-api", gen: gen::c07_rustapi, quick: 20_000, thorough: 600_000, judge: Judge::Exec },
                Family { name: "c07-hugeout", gen: gen::c07_hugeout, quick: 2, thorough: 16, judge: Judge::Exec },
            ],
            real: vec!["/repo/c: all four unix .S files, all four windows_gnu .S files (assembled for ELF), blake3_{portable,sse2,sse41,avx2,avx512}.c, blake3.c, blake3_dispatch.c", "/repo/src kernels through blake3::platform::Platform"],
            stubs: vec!["MSVC .asm, NEON and wasm32 kernels cannot be built or run here"],
            assumptions: vec!["reads from inside the caller's own larger allocation are only visible where the guard page is adjacent", "monitors are observations on seeded, replayable executions; undefined behaviour that leaves no trace in memory, registers or signals is not seen (the ASan/UBSan/Miri replays of the thorough tier narrow this)"],
        }),
        _ => None,
    }
}
