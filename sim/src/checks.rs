//! Registry: which families decide which property.

use crate::gen;
use crate::runner::{CheckSpec, Family, Judge};

pub fn all_props() -> Vec<&'static str> {
    vec!["C11"]
}

const REAL_RUST: &[&str] = &["/repo/src (blake3 crate, built from the working tree with --cfg blake3_team_blake3_verif)", "rayon-core", "memmap2", "digest", "zeroize", "arrayvec", "kernel VFS (scratch files)"];

pub fn spec(prop: &str) -> Option<CheckSpec> {
    match prop {
        "C11" => Some(CheckSpec {
            prop: "C11",
            level: "fault_enumeration",
            rule: "Each run is one plan: a source byte string delivered through update_reader / &mut dyn Read / io::copy by a scripted reader (short reads, Interrupted, hard errors, early EOF, junk beyond n). Per base plan the fault kinds {Interrupted, Err, 1-byte read, early EOF} are enumerated at every call index 0..48 of the script, plus one random faulty script and the fault-free base. Oracle: Ok => reader reached EOF and the hasher equals the one-shot hash of exactly the bytes yielded; Err => the injected error (kind and identity) and the hasher equals the one-shot hash of the bytes yielded before it; count() equals bytes yielded; no read after EOF/error. File half: update_mmap, update_mmap_rayon and update_reader(File) on scratch files of lengths around the 16 KiB threshold must all equal the one-shot hash. distinct_nontrivial = distinct (partial-chunk class x stack popcount x alignment x mode x adapter) hasher state shapes reached.",
            families: vec![
                Family { name: "c11-reader", gen: gen::c11_reader, quick: 120_000, thorough: 3_000_000, judge: Judge::Exec },
                Family { name: "c11-file", gen: gen::c11_file, quick: 3_000, thorough: 60_000, judge: Judge::Exec },
            ],
            real: REAL_RUST.to_vec(),
            stubs: vec!["the reader behind update_reader is the simulator's SimReader (the seam under test)"],
            assumptions: vec!["oracle = the crate's own one-shot functions on the yielded bytes (as the property is worded)", "std::io::copy and std::fs behave as documented"],
        }),
        _ => None,
    }
}
