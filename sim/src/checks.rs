//! Registry: which families decide which property.

use crate::gen;
use crate::runner::{CheckSpec, Family, Judge};

pub fn all_props() -> Vec<&'static str> {
    vec!["C02", "C03", "C10", "C11"]
}

const REAL_RUST: &[&str] = &["/repo/src (blake3 crate, built from the working tree with --cfg blake3_team_blake3_verif)", "rayon-core", "memmap2", "digest", "zeroize", "arrayvec", "kernel VFS (scratch files)"];

pub fn spec(prop: &str) -> Option<CheckSpec> {
    match prop {
        "C11" => Some(CheckSpec {
            prop: "C11",
            level: "fault_enumeration",
            rule: "Each run is one plan: a source byte string delivered through update_reader / &mut dyn Read / io::copy by a scripted reader (short reads, Interrupted, hard errors, early EOF, junk beyond n). Per base plan the fault kinds {Interrupted, Err, 1-byte read, early EOF} are enumerated at every call index 0..48 of the script, plus one random faulty script and the fault-free base. Oracle: Ok => reader reached EOF and the hasher equals the one-shot hash of exactly the bytes yielded; Err => the injected error (kind and identity) and the hasher equals the one-shot hash of the bytes yielded before it; count() equals bytes yielded; no read after EOF/error. File half: update_mmap, update_mmap_rayon and update_reader(File) on scratch files of lengths around the 16 KiB threshold must all equal the one-shot hash. distinct_nontrivial = distinct (partial-chunk class x stack popcount x alignment x mode x adapter) hasher state shapes reached.",
            families: vec![
                Family { name: "c11-reader", gen: gen::c11_reader, quick: 120_000, thorough: 3_000_000, judge: Judge::Exec },
                Family { name: "c11-file", gen: gen::c11_file, quick: 3_000, thorough: 60_000, judge: Judge::Exec },
            ],
            real: REAL_RUST.to_vec(),
            stubs: vec!["the reader behind update_reader is the simulator's SimReader (the seam under test)"],
            assumptions: vec!["oracle = the crate's own one-shot functions on the yielded bytes (as the property is worded)", "std::io::copy and std::fs behave as documented"],
        }),
        "C02" => Some(CheckSpec {
            prop: "C02",
            level: "exploration",
            rule: "Each run is one plan: 1-3 hashers (all modes) in a world of 1-4 caller tasks; each message is cut by a delivery script into fragments (boundary-biased sizes, zero-length included), each fragment delivered through an adapter (update, Write::write, write_all, io::copy, update_reader, update_rayon on a real pool, scripted-Join update, update_mmap*), interleaved with count / finalize / finalize_xof / clone (clone diverges, possibly after moving to another task) / concurrent finalize of one &Hasher from three tasks / moving the hasher between tasks. After every call count() must equal the bytes absorbed by that instance; every finalize must equal the crate's one-shot function on exactly those bytes and every extended output a single-update twin. distinct_nontrivial = distinct hasher state shapes (partial-chunk class x stack popcount x alignment x mode x adapter) + distinct schedule signatures of multi-task runs.",
            families: vec![Family { name: "c02", gen: gen::c02, quick: 150_000, thorough: 4_000_000, judge: Judge::Exec }],
            real: REAL_RUST.to_vec(),
            stubs: vec!["caller threads are simulated tasks under the baton scheduler (real OS threads, one runs at a time)"],
            assumptions: vec!["oracle = the crate's own one-shot functions (as the property is worded); for output beyond 32 bytes a fresh hasher fed by a single update"],
        }),
        "C03" => Some(CheckSpec {
            prop: "C03",
            level: "exploration",
            rule: "Each run: 1-2 OutputReaders from roots of all kinds, driven by histories of fill / Read::read / read_exact / take().read_to_end / io::copy / set_position / seek(Start|Current|End) / position / clone (clone or reader may move to another task). Positions are log-uniform over [0, 2^64-1) with spikes around block counter 2^32, 2^38, 2^63 and the end of the stream; seeks that must fail (negative targets, every End) are injected anywhere and must leave the position unchanged. Oracle: SpecModel root node, block k computed on demand; every read must fill the whole buffer and advance the position by n. Forward seeks past 2^64-1 are not generated (the property is silent on them). distinct_nontrivial = distinct (adapter x position-in-block x length class x counter side of 2^32) read shapes + hasher shapes + schedule signatures.",
            families: vec![Family { name: "c03", gen: gen::c03, quick: 200_000, thorough: 6_000_000, judge: Judge::Exec }],
            real: REAL_RUST.to_vec(),
            stubs: vec![],
            assumptions: vec!["SpecModel (independent implementation of the paper, pinned by the frozen official vectors and hash(\"\"), hash(\"abc\"))"],
        }),
        "C10" => Some(CheckSpec {
            prop: "C10",
            level: "exploration",
            rule: "Each run: a pool of 1-2 long-lived hashers serving 3-5 simulated clients each; a client runs a random prefix (set_input_offset at a valid offset, updates through any adapter, finalize / finalize_xof / finalize_non_root, clone) and is cancelled at an arbitrary operation; the pool calls reset() and hands the hasher (possibly on another task) to the next client. Oracle: a freshly constructed twin of the same mode executes the next client's operations in lockstep (count, finalize, finalize_non_root must agree) and the crate's one-shot function on the bytes absorbed since the reset; no in-domain operation may panic. Clones and originals are checked against their own byte strings. distinct_nontrivial = distinct state shapes at reset/absorb/finalize + schedule signatures.",
            families: vec![Family { name: "c10", gen: gen::c10, quick: 150_000, thorough: 4_000_000, judge: Judge::Exec }],
            real: REAL_RUST.to_vec(),
            stubs: vec![],
            assumptions: vec!["oracle = freshly constructed twin + crate one-shot functions; SpecModel for non-root chaining values"],
        }),
        _ => None,
    }
}
