//! Export of C API histories as a text script for the ASan/UBSan replay driver (/verif/csan/driver.c).
//! The expected digests come from SpecModel, so the driver needs nothing but the C library.

use crate::gen::GenCtx;
use crate::model::MMode;
use crate::plan::*;
use crate::rng::Fnv;
use std::collections::BTreeMap;
use std::fmt::Write as _;

fn ctx_bytes(data: &[u8]) -> Vec<u8> {
    const ALPHA: [&str; 16] = ["a", "B", " ", "0", "-", "é", "ß", "→", "日", "本", "𝔘", "😀", ":", "\u{0}", "~", "\n"];
    let mut s = Vec::new();
    for b in data {
        s.extend_from_slice(ALPHA[(*b & 15) as usize].as_bytes());
    }
    s
}

/// script text for one plan (None if it contains something the driver cannot replay)
pub fn plan_script(index: u64, plan: &Plan) -> Option<String> {
    let data: Vec<Vec<u8>> = plan.data.iter().map(|d| d.materialize(0)).collect();
    if data.len() > 60 {
        return None;
    }
    let mut out = String::new();
    writeln!(out, "P {index}").ok()?;
    writeln!(out, "X").ok()?;
    for (i, d) in plan.data.iter().enumerate() {
        match d {
            DataSpec::Random { seed, len } => writeln!(out, "D {i} R {seed} {len}").ok()?,
            DataSpec::Periodic { len, start } => writeln!(out, "D {i} P {start} {len}").ok()?,
            DataSpec::Const { len, byte } => writeln!(out, "D {i} C {byte} {len}").ok()?,
            DataSpec::Explicit { .. } => return None,
        }
    }
    let mut shadow: BTreeMap<usize, (MMode, Vec<u8>)> = BTreeMap::new();
    for op in plan.tasks.first()?.ops.iter() {
        match op {
            Op::CSetMask { mask } => {
                let det = crate::cnode::detected_mask();
                let m = if *mask == u32::MAX { 1 << 30 } else { (*mask as i32) & det };
                writeln!(out, "M {m}").ok()?;
            }
            Op::CInit { slot, mode, raw, .. } => {
                if *slot >= 60 {
                    return None;
                }
                let (m, code, di) = match mode {
                    Mode::Hash => (MMode::Hash, 0, 0),
                    Mode::Keyed { key } => {
                        let mut k = [0u8; 32];
                        let v = data.get(*key)?;
                        let n = v.len().min(32);
                        k[..n].copy_from_slice(&v[..n]);
                        (MMode::Keyed(k), 1, *key)
                    }
                    Mode::Derive { ctx } | Mode::ContextKey { ctx } => (MMode::Derive(ctx_bytes(data.get(*ctx)?)), 2, *ctx),
                };
                writeln!(out, "I {slot} {code} {di} {}", *raw as u8).ok()?;
                shadow.insert(*slot, (m, Vec::new()));
            }
            Op::CUpdate { c, data: di, off, len, .. } => {
                let v = data.get(*di)?;
                if *off > v.len() || *len > v.len() - *off {
                    continue;
                }
                let Some(s) = shadow.get_mut(c) else { continue };
                s.1.extend_from_slice(&v[*off..*off + *len]);
                writeln!(out, "U {c} {di} {off} {len}").ok()?;
            }
            Op::CFinalize { c, seek, out_len } => {
                let Some(s) = shadow.get(c) else { continue };
                let pos = seek.unwrap_or(0);
                if (pos as u128) + (*out_len as u128) > u64::MAX as u128 {
                    continue;
                }
                let want = Fnv::of(&s.0.root(&s.1).stream(pos, *out_len));
                match seek {
                    None => writeln!(out, "F {c} -1 {out_len} {want:x}").ok()?,
                    Some(p) => writeln!(out, "S {c} {p} {out_len} {want:x}").ok()?,
                }
            }
            Op::CReset { c } => {
                if let Some(s) = shadow.get_mut(c) {
                    s.1.clear();
                    writeln!(out, "R {c}").ok()?;
                }
            }
            Op::CCopy { c, new } => {
                if *new >= 60 {
                    return None;
                }
                if let Some(s) = shadow.get(c).cloned() {
                    shadow.insert(*new, s);
                    writeln!(out, "C {c} {new}").ok()?;
                }
            }
            _ => {}
        }
    }
    Some(out)
}

/// b3sim export-c --seed S --count N --shards K --out DIR [--tier T]
pub fn export_c(seed: u64, count: u64, shards: u64, dir: &str, thorough: bool) -> i32 {
    let g = GenCtx { tier_thorough: thorough, avail: &crate::runner::GEN_LEVELS };
    if std::fs::create_dir_all(dir).is_err() {
        return 2;
    }
    let mut files: Vec<String> = (0..shards).map(|_| String::new()).collect();
    let mut n = 0;
    for i in 0..count {
        let plan = crate::gen::c06(seed ^ 0xA5A4, i, &g);
        if let Some(s) = plan_script(i, &plan) {
            files[(i % shards) as usize].push_str(&s);
            n += 1;
        }
    }
    for (k, f) in files.iter().enumerate() {
        if std::fs::write(format!("{dir}/shard_{k}.txt"), f).is_err() {
            return 2;
        }
    }
    println!("exported {n} plans into {shards} scripts under {dir}");
    0
}

/// b3sim export-c-one --seed S --index I --out FILE : the script of one plan (for replays)
pub fn export_one(seed: u64, index: u64, file: &str, thorough: bool) -> i32 {
    let g = GenCtx { tier_thorough: thorough, avail: &crate::runner::GEN_LEVELS };
    let plan = crate::gen::c06(seed ^ 0xA5A4, index, &g);
    match plan_script(index, &plan) {
        Some(s) => {
            if std::fs::write(file, s).is_err() {
                return 2;
            }
            println!("{}", serde_json::to_string_pretty(&plan).unwrap_or_default());
            0
        }
        None => 2,
    }
}
