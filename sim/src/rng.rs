//! In-harness PRNGs. No external crate: the stream must never change under us,
//! because a seed is an execution.

#[inline]
pub fn splitmix64(x: &mut u64) -> u64 {
    *x = x.wrapping_add(0x9E37_79B9_7F4A_7C15);
    let mut z = *x;
    z = (z ^ (z >> 30)).wrapping_mul(0xBF58_476D_1CE4_E5B9);
    z = (z ^ (z >> 27)).wrapping_mul(0x94D0_49BB_1331_11EB);
    z ^ (z >> 31)
}

/// mix(VERIF_SEED, i): the per-run seed.
pub fn mix(base: u64, i: u64) -> u64 {
    let mut s = base ^ i.wrapping_mul(0xD6E8_FEB8_6659_FD93) ^ 0xA076_1D64_78BD_642F;
    let a = splitmix64(&mut s);
    let b = splitmix64(&mut s);
    a ^ b.rotate_left(23)
}

/// xoshiro256**
#[derive(Clone, Debug)]
pub struct Rng {
    s: [u64; 4],
}

impl Rng {
    pub fn new(seed: u64) -> Self {
        let mut x = seed;
        let s = [
            splitmix64(&mut x),
            splitmix64(&mut x),
            splitmix64(&mut x),
            splitmix64(&mut x),
        ];
        Rng { s }
    }

    #[inline]
    pub fn next(&mut self) -> u64 {
        let result = self.s[1].wrapping_mul(5).rotate_left(7).wrapping_mul(9);
        let t = self.s[1] << 17;
        self.s[2] ^= self.s[0];
        self.s[3] ^= self.s[1];
        self.s[1] ^= self.s[2];
        self.s[0] ^= self.s[3];
        self.s[2] ^= t;
        self.s[3] = self.s[3].rotate_left(45);
        result
    }

    /// uniform in 0..n (n > 0)
    #[inline]
    pub fn below(&mut self, n: u64) -> u64 {
        debug_assert!(n > 0);
        // multiply-shift; bias is irrelevant here, determinism is what matters
        ((self.next() as u128 * n as u128) >> 64) as u64
    }

    #[inline]
    pub fn range(&mut self, lo: u64, hi_incl: u64) -> u64 {
        lo + self.below(hi_incl - lo + 1)
    }

    #[inline]
    pub fn usize_below(&mut self, n: usize) -> usize {
        self.below(n as u64) as usize
    }

    /// true with probability num/den
    #[inline]
    pub fn chance(&mut self, num: u64, den: u64) -> bool {
        self.below(den) < num
    }

    pub fn pick<'a, T>(&mut self, xs: &'a [T]) -> &'a T {
        &xs[self.usize_below(xs.len())]
    }

    pub fn fill(&mut self, buf: &mut [u8]) {
        let mut chunks = buf.chunks_exact_mut(8);
        for c in &mut chunks {
            c.copy_from_slice(&self.next().to_le_bytes());
        }
        let rem = chunks.into_remainder();
        if !rem.is_empty() {
            let v = self.next().to_le_bytes();
            rem.copy_from_slice(&v[..rem.len()]);
        }
    }

    /// weighted pick: returns index
    pub fn weighted(&mut self, weights: &[u32]) -> usize {
        let total: u64 = weights.iter().map(|&w| w as u64).sum();
        debug_assert!(total > 0);
        let mut x = self.below(total);
        for (i, &w) in weights.iter().enumerate() {
            if x < w as u64 {
                return i;
            }
            x -= w as u64;
        }
        weights.len() - 1
    }
}

/// FNV-1a 64 (deliberately not BLAKE3) for trace digests.
#[derive(Clone, Copy, Debug)]
pub struct Fnv(pub u64);

impl Default for Fnv {
    fn default() -> Self {
        Fnv(0xcbf2_9ce4_8422_2325)
    }
}

impl Fnv {
    #[inline]
    pub fn bytes(&mut self, b: &[u8]) {
        let mut h = self.0;
        for &x in b {
            h ^= x as u64;
            h = h.wrapping_mul(0x0000_0100_0000_01B3);
        }
        self.0 = h;
    }
    #[inline]
    pub fn u64(&mut self, v: u64) {
        self.bytes(&v.to_le_bytes());
    }
    pub fn of(b: &[u8]) -> u64 {
        let mut f = Fnv::default();
        f.bytes(b);
        f.0
    }
}
