//! GuardAlloc: every caller-visible buffer handed to native code is placed
//! flush against an inaccessible page (after it, or before it), with canary
//! bytes on the other side. A fatal signal while native code runs is reported
//! through a crash file and a dedicated exit status, so the parent process can
//! turn it into a violation with a replay file.

use std::sync::atomic::{AtomicI32, AtomicU64, AtomicUsize, Ordering};
use std::sync::Mutex;

pub const PAGE: usize = 4096;
const ARENA_LEN: usize = 1 << 30;
pub const EXIT_MEMFAULT: i32 = 86;
pub const EXIT_CRASH_OTHER: i32 = 87;
pub const EXIT_HANG: i32 = 88;
/// incremented whenever an operation finishes: the watchdog's notion of progress
pub static PROGRESS: AtomicU64 = AtomicU64::new(0);

/// Liveness monitor: if no operation finishes for `limit_s` seconds while one is executing, the
/// process writes a crash record ("HANG ...") and exits with EXIT_HANG, so that a call that never
/// returns becomes a violation with a replay instead of a check that never ends.
pub fn start_watchdog(limit_s: u64) {
    std::thread::Builder::new()
        .name("watchdog".into())
        .spawn(move || {
            let mut last = (u64::MAX, u64::MAX, u64::MAX);
            let mut since = std::time::Instant::now();
            loop {
                std::thread::sleep(std::time::Duration::from_millis(500));
                let cur = (CUR_RUN.load(Ordering::Relaxed), CUR_TASK_OP.load(Ordering::Relaxed), PROGRESS.load(Ordering::Relaxed));
                if cur != last || IN_SUT.load(Ordering::Relaxed) == 0 {
                    last = cur;
                    since = std::time::Instant::now();
                    continue;
                }
                if since.elapsed().as_secs() >= limit_s {
                    let mut buf = [0u8; 256];
                    let mut n = 0;
                    put(&mut buf, &mut n, b"HANG no operation finished for ");
                    put_num(&mut buf, &mut n, limit_s, false);
                    put(&mut buf, &mut n, b"s run=");
                    put_num(&mut buf, &mut n, cur.0, false);
                    put(&mut buf, &mut n, b" task=");
                    put_num(&mut buf, &mut n, cur.1 >> 32, false);
                    put(&mut buf, &mut n, b" op=");
                    put_num(&mut buf, &mut n, cur.1 & 0xffff_ffff, false);
                    put(&mut buf, &mut n, b"\n");
                    unsafe {
                        libc::write(CRASH_FD.load(Ordering::Relaxed), buf.as_ptr() as *const libc::c_void, n);
                        libc::_exit(EXIT_HANG);
                    }
                }
            }
        })
        .expect("watchdog thread");
}

static ARENA_BASE: AtomicUsize = AtomicUsize::new(0);
static BUMP: Mutex<usize> = Mutex::new(0);
static CRASH_FD: AtomicI32 = AtomicI32::new(2);
pub static CUR_RUN: AtomicU64 = AtomicU64::new(u64::MAX);
pub static CUR_TASK_OP: AtomicU64 = AtomicU64::new(0);
/// > 0 while an operation on the system under test is executing on some task
pub static IN_SUT: AtomicUsize = AtomicUsize::new(0);
/// the current run places buffers and objects for the memory-safety monitors (C07): an abort raised by the
/// allocator's own consistency checks then counts as a memory fault
pub static GUARD_RUN: std::sync::atomic::AtomicBool = std::sync::atomic::AtomicBool::new(false);

#[derive(Clone, Copy, PartialEq, Debug)]
pub enum Place {
    /// last byte of the buffer is the last byte before a PROT_NONE page
    GuardAfter,
    /// first byte of the buffer is the first byte after a PROT_NONE page
    GuardBefore,
    /// inside a page at this misalignment, canaries on both sides
    Middle(usize),
    /// like GuardAfter, but the buffer ends this many (readable, canary-filled) bytes before the page
    GuardAfterGap(usize),
}

pub fn place_of(code: u8) -> Place {
    match code % 4 {
        0 | 1 => Place::GuardAfter,
        2 => Place::GuardBefore,
        _ => Place::Middle(1 + (code as usize / 4) % 63),
    }
}

pub struct GuardBuf {
    ptr: *mut u8,
    len: usize,
    /// readable/writable region [lo, hi) that contains the buffer (canaries elsewhere in it)
    lo: *mut u8,
    hi: *mut u8,
}
unsafe impl Send for GuardBuf {}
unsafe impl Sync for GuardBuf {}

const CANARY: u8 = 0xA7;

fn arena() -> usize {
    let b = ARENA_BASE.load(Ordering::Acquire);
    if b != 0 {
        return b;
    }
    let mut g = BUMP.lock().unwrap();
    let b = ARENA_BASE.load(Ordering::Acquire);
    if b != 0 {
        return b;
    }
    let p = unsafe {
        libc::mmap(std::ptr::null_mut(), ARENA_LEN, libc::PROT_NONE, libc::MAP_PRIVATE | libc::MAP_ANONYMOUS | libc::MAP_NORESERVE, -1, 0)
    };
    assert!(p != libc::MAP_FAILED, "guard arena");
    *g = 0;
    ARENA_BASE.store(p as usize, Ordering::Release);
    p as usize
}

/// Forget every buffer of the previous run (called between runs; no GuardBuf may be alive).
pub fn reset_arena() {
    let base = ARENA_BASE.load(Ordering::Acquire);
    if base == 0 {
        return;
    }
    let mut g = BUMP.lock().unwrap();
    if *g > 0 {
        unsafe {
            libc::mprotect(base as *mut libc::c_void, *g, libc::PROT_NONE);
            libc::madvise(base as *mut libc::c_void, *g, libc::MADV_DONTNEED);
        }
    }
    *g = 0;
}

impl GuardBuf {
    pub fn new(len: usize, place: Place) -> GuardBuf {
        let base = arena();
        let body_pages = (len + 64 + PAGE - 1) / PAGE + 1;
        let total = (body_pages + 2) * PAGE; // guard page before and after
        let off = {
            let mut g = BUMP.lock().unwrap();
            let o = *g;
            assert!(o + total <= ARENA_LEN, "guard arena exhausted");
            *g += total;
            o
        };
        let region = base + off + PAGE; // first accessible byte
        let rlen = body_pages * PAGE;
        unsafe {
            let r = libc::mprotect(region as *mut libc::c_void, rlen, libc::PROT_READ | libc::PROT_WRITE);
            assert!(r == 0, "mprotect");
            std::ptr::write_bytes(region as *mut u8, CANARY, rlen);
        }
        let ptr = match place {
            Place::GuardAfter => region + rlen - len,
            Place::GuardBefore => region,
            Place::Middle(m) => region + 64 + (m % 64),
            Place::GuardAfterGap(g) => region + rlen - len - g.min(64),
        };
        GuardBuf { ptr: ptr as *mut u8, len, lo: region as *mut u8, hi: (region + rlen) as *mut u8 }
    }
    pub fn with_bytes(bytes: &[u8], place: Place) -> GuardBuf {
        let g = GuardBuf::new(bytes.len(), place);
        unsafe { std::ptr::copy_nonoverlapping(bytes.as_ptr(), g.ptr, bytes.len()) };
        g
    }
    pub fn ptr(&self) -> *mut u8 {
        self.ptr
    }
    pub fn len(&self) -> usize {
        self.len
    }
    pub fn as_slice(&self) -> &[u8] {
        unsafe { std::slice::from_raw_parts(self.ptr, self.len) }
    }
    pub fn as_mut_slice(&mut self) -> &mut [u8] {
        unsafe { std::slice::from_raw_parts_mut(self.ptr, self.len) }
    }
    /// offset (relative to the buffer start, may be negative) of the first damaged canary byte
    pub fn canary_damage(&self) -> Option<isize> {
        unsafe {
            let mut p = self.lo;
            while p < self.ptr {
                if *p != CANARY {
                    return Some(p.offset_from(self.ptr));
                }
                p = p.add(1);
            }
            let mut p = self.ptr.add(self.len);
            while p < self.hi {
                if *p != CANARY {
                    return Some(p.offset_from(self.ptr));
                }
                p = p.add(1);
            }
        }
        None
    }
}

// ---------------------------------------------------------------------------------------------
// fatal signals

fn put(buf: &mut [u8; 256], n: &mut usize, s: &[u8]) {
    for &b in s {
        if *n < buf.len() {
            buf[*n] = b;
            *n += 1;
        }
    }
}
fn put_num(buf: &mut [u8; 256], n: &mut usize, mut v: u64, hexa: bool) {
    let mut tmp = [0u8; 24];
    let mut k = 0;
    let base = if hexa { 16 } else { 10 };
    if v == 0 {
        tmp[0] = b'0';
        k = 1;
    }
    while v > 0 {
        let d = (v % base) as u8;
        tmp[k] = if d < 10 { b'0' + d } else { b'a' + d - 10 };
        v /= base;
        k += 1;
    }
    while k > 0 {
        k -= 1;
        if *n < buf.len() {
            buf[*n] = tmp[k];
            *n += 1;
        }
    }
}

extern "C" fn on_fatal(sig: libc::c_int, info: *mut libc::siginfo_t, _ctx: *mut libc::c_void) {
    // async-signal-safe only: format by hand, write(2), _exit(2)
    let addr = unsafe { (*info).si_addr() as usize };
    let base = ARENA_BASE.load(Ordering::Relaxed);
    let in_guard = base != 0 && addr >= base && addr < base + ARENA_LEN;
    let in_sut = IN_SUT.load(Ordering::Relaxed) > 0;
    let mut buf = [0u8; 256];
    let mut n = 0;
    put(&mut buf, &mut n, b"MEMFAULT sig=");
    put_num(&mut buf, &mut n, sig as u64, false);
    put(&mut buf, &mut n, b" addr=0x");
    put_num(&mut buf, &mut n, addr as u64, true);
    put(&mut buf, &mut n, b" in_guard_arena=");
    put_num(&mut buf, &mut n, in_guard as u64, false);
    put(&mut buf, &mut n, b" in_sut_op=");
    put_num(&mut buf, &mut n, in_sut as u64, false);
    put(&mut buf, &mut n, b" run=");
    put_num(&mut buf, &mut n, CUR_RUN.load(Ordering::Relaxed), false);
    let to = CUR_TASK_OP.load(Ordering::Relaxed);
    put(&mut buf, &mut n, b" task=");
    put_num(&mut buf, &mut n, to >> 32, false);
    put(&mut buf, &mut n, b" op=");
    put_num(&mut buf, &mut n, to & 0xffff_ffff, false);
    put(&mut buf, &mut n, b"\n");
    unsafe {
        libc::write(CRASH_FD.load(Ordering::Relaxed), buf.as_ptr() as *const libc::c_void, n);
        libc::_exit(if in_guard || in_sut || (sig == libc::SIGABRT && GUARD_RUN.load(Ordering::Relaxed)) { EXIT_MEMFAULT } else { EXIT_CRASH_OTHER });
    }
}

pub fn install_fatal_handlers(crash_file: Option<&str>) {
    if let Some(p) = crash_file {
        if let Ok(c) = std::ffi::CString::new(p) {
            let fd = unsafe { libc::open(c.as_ptr(), libc::O_WRONLY | libc::O_CREAT | libc::O_TRUNC, 0o644) };
            if fd >= 0 {
                CRASH_FD.store(fd, Ordering::Relaxed);
            }
        }
    }
    unsafe {
        // alternate stack: a fault may be a stack overflow or happen with a corrupted rsp
        let ss = libc::stack_t { ss_sp: libc::mmap(std::ptr::null_mut(), 1 << 16, libc::PROT_READ | libc::PROT_WRITE, libc::MAP_PRIVATE | libc::MAP_ANONYMOUS, -1, 0), ss_flags: 0, ss_size: 1 << 16 };
        libc::sigaltstack(&ss, std::ptr::null_mut());
        let mut sa: libc::sigaction = std::mem::zeroed();
        sa.sa_sigaction = on_fatal as usize;
        sa.sa_flags = libc::SA_SIGINFO | libc::SA_ONSTACK;
        // SIGABRT: glibc aborts when it finds its heap metadata overwritten (a write past a heap object)
        for s in [libc::SIGSEGV, libc::SIGBUS, libc::SIGILL, libc::SIGFPE, libc::SIGABRT] {
            libc::sigaction(s, &sa, std::ptr::null_mut());
        }
    }
}

/// signal handlers run on an alternate stack; each thread needs its own
pub fn thread_altstack() {
    unsafe {
        let sp = libc::mmap(std::ptr::null_mut(), 1 << 16, libc::PROT_READ | libc::PROT_WRITE, libc::MAP_PRIVATE | libc::MAP_ANONYMOUS, -1, 0);
        if sp != libc::MAP_FAILED {
            let ss = libc::stack_t { ss_sp: sp, ss_flags: 0, ss_size: 1 << 16 };
            libc::sigaltstack(&ss, std::ptr::null_mut());
        }
    }
}

pub struct SutGuard;
impl SutGuard {
    pub fn enter() -> SutGuard {
        IN_SUT.fetch_add(1, Ordering::Relaxed);
        SutGuard
    }
}
impl Drop for SutGuard {
    fn drop(&mut self) {
        IN_SUT.fetch_sub(1, Ordering::Relaxed);
    }
}
