//! Operation interpreter: each op is executed against the real crate and
//! checked against its oracle (shadow state kept in the slot).

use crate::exec::*;
use crate::model::{self, MMode};
use crate::plan::*;
use crate::rng::Fnv;
use crate::sched;
use blake3::hazmat::HasherExt;
use std::io::{Read, Seek, Write};
use std::sync::atomic::AtomicUsize;
use std::sync::Arc;
#[cfg(not(feature = "par"))]
use crate::lean::LeanHasher;

pub const MAX_POS: u64 = u64::MAX; // stream has 2^64-1 bytes: positions 0 ..= 2^64-1

pub fn d<'a>(sh: &'a Shared, idx: usize, off: usize, len: usize) -> Result<&'a [u8], OpErr> {
    let v = sh.data.get(idx).ok_or(OpErr::Skip)?;
    if off > v.len() || len > v.len() - off {
        return Err(OpErr::Skip);
    }
    Ok(&v[off..off + len])
}

/// 32 key bytes from a data entry (zero padded)
pub fn key32(sh: &Shared, idx: usize) -> Result<[u8; 32], OpErr> {
    let v = sh.data.get(idx).ok_or(OpErr::Skip)?;
    let mut k = [0u8; 32];
    let n = v.len().min(32);
    k[..n].copy_from_slice(&v[..n]);
    Ok(k)
}

/// a context string from a data entry: every byte becomes one char from an
/// alphabet with ASCII, multi-byte and astral characters
pub fn ctx_string(sh: &Shared, idx: usize) -> Result<String, OpErr> {
    const ALPHA: [&str; 16] = ["a", "B", " ", "0", "-", "é", "ß", "→", "日", "本", "𝔘", "😀", ":", "\u{0}", "~", "\n"];
    let v = sh.data.get(idx).ok_or(OpErr::Skip)?;
    let mut s = String::new();
    for b in v {
        s.push_str(ALPHA[(*b & 15) as usize]);
    }
    Ok(s)
}

pub fn mmode(sh: &Shared, m: &Mode) -> Result<MMode, OpErr> {
    Ok(match m {
        Mode::Hash => MMode::Hash,
        Mode::Keyed { key } => MMode::Keyed(key32(sh, *key)?),
        Mode::Derive { ctx } => MMode::Derive(ctx_string(sh, *ctx)?.into_bytes()),
        Mode::ContextKey { ctx } => {
            let s = ctx_string(sh, *ctx)?;
            // The context key depends on the bytes of the context only: not on where the string lives nor on what
            // this thread derived before. Contexts are formatted into one reused buffer per thread, and a different
            // context of the same length is derived at the same address just before the real one.
            thread_local! {
                static CTXBUF: std::cell::RefCell<String> = std::cell::RefCell::new(String::with_capacity(4096));
            }
            let decoy: String = s.chars().map(|c| match c { 'a' => 'B', 'B' => 'a', '0' => '-', '-' => '0', ':' => '~', '~' => ':', o => o }).collect();
            let (kd, k) = sched::quiet(|| {
                CTXBUF.with(|b| {
                    let mut b = b.borrow_mut();
                    b.clear();
                    b.push_str(&decoy);
                    let kd = blake3::hazmat::hash_derive_key_context(&b);
                    b.clear();
                    b.push_str(&s);
                    (kd, blake3::hazmat::hash_derive_key_context(&b))
                })
            });
            if k != model::context_key(s.as_bytes()) || kd != model::context_key(decoy.as_bytes()) {
                return viol("result-mismatch", format!("hash_derive_key_context({:?}) is not the specified context key (derived right after {:?} at the same address)", s, decoy));
            }
            MMode::ContextKey(k)
        }
    })
}

pub fn fresh_hasher(m: &MMode) -> blake3::Hasher {
    match m {
        MMode::Hash => blake3::Hasher::new(),
        MMode::Keyed(k) => crate::stable::with_key(0, k, |k| blake3::Hasher::new_keyed(k)),
        MMode::Derive(c) => crate::stable::with_ctx(std::str::from_utf8(c).unwrap(), |c| blake3::Hasher::new_derive_key(c)),
        MMode::ContextKey(k) => crate::stable::with_key(0, k, |k| blake3::Hasher::new_from_context_key(k)),
    }
}

/// The crate's one-shot function for a mode (C02's oracle, as the property is worded).
pub fn oneshot(m: &MMode, input: &[u8]) -> [u8; 32] {
    sched::quiet(|| match m {
        MMode::Hash => *blake3::hash(input).as_bytes(),
        MMode::Keyed(k) => *blake3::keyed_hash(k, input).as_bytes(),
        MMode::Derive(c) => blake3::derive_key(std::str::from_utf8(c).unwrap(), input),
        // no one-shot function takes a context key: single-update fresh hasher is the nearest thing
        MMode::ContextKey(k) => *blake3::Hasher::new_from_context_key(k).update(input).finalize().as_bytes(),
    })
}

/// n bytes of extended output at `pos` from a fresh twin fed in a single update.
pub fn twin_xof(m: &MMode, input: &[u8], pos: u64, n: usize) -> Vec<u8> {
    sched::quiet(|| {
        let mut r = fresh_hasher(m).update(input).finalize_xof();
        r.set_position(pos);
        let mut out = vec![0u8; n];
        r.fill(&mut out);
        out
    })
}

pub fn hx(b: &[u8]) -> String {
    if b.len() <= 48 {
        model::hex(b)
    } else {
        format!("{}..({} bytes)", model::hex(&b[..48]), b.len())
    }
}

pub fn first_diff(a: &[u8], b: &[u8]) -> usize {
    a.iter().zip(b.iter()).position(|(x, y)| x != y).unwrap_or(a.len().min(b.len()))
}

macro_rules! get {
    ($local:expr, $slot:expr, $variant:ident) => {
        match $local.slots.get_mut(&$slot) {
            Some(Slot::$variant(x)) => x,
            _ => return Err(OpErr::Skip),
        }
    };
}

fn check_hash(sh: &Shared, hs: &HSlot, got: &[u8; 32], what: &str) -> Result<(), OpErr> {
    let want = oneshot(&hs.mode, &hs.absorbed);
    if *got != want {
        return viol(
            "result-mismatch",
            format!("{what}: got {} want one-shot {} after {} bytes", hx(got), hx(&want), hs.absorbed.len()),
        );
    }
    if sh.plan.cfg.model_oracle {
        let m = hs.mode.root(&hs.absorbed).root_hash();
        if *got != m {
            return viol("result-mismatch", format!("{what}: got {} want spec {}", hx(got), hx(&m)));
        }
    }
    Ok(())
}

fn check_xof(sh: &Shared, hs: &HSlot, pos: u64, got: &[u8], what: &str) -> Result<(), OpErr> {
    let want = twin_xof(&hs.mode, &hs.absorbed, pos, got.len());
    if got != &want[..] {
        let i = first_diff(got, &want);
        return viol(
            "result-mismatch",
            format!("{what}: xof differs from single-update twin at byte {i} (pos {pos}, n {}, absorbed {})", got.len(), hs.absorbed.len()),
        );
    }
    if got.len() >= 32 && pos == 0 {
        let h = oneshot(&hs.mode, &hs.absorbed);
        if got[..32] != h {
            return viol("result-mismatch", format!("{what}: first 32 xof bytes differ from one-shot hash"));
        }
    }
    if sh.plan.cfg.model_oracle {
        let m = hs.mode.root(&hs.absorbed).stream(pos, got.len());
        if got != &m[..] {
            let i = first_diff(got, &m);
            return viol("result-mismatch", format!("{what}: xof differs from spec at byte {i}"));
        }
    }
    Ok(())
}

fn shape_of(hs: &HSlot, tag: u64) -> u64 {
    let n = hs.absorbed.len();
    let partial = n % 1024;
    let pc = if n == 0 {
        0
    } else if partial == 0 {
        1
    } else if partial < 64 {
        2
    } else if partial % 64 == 0 {
        3
    } else {
        4
    };
    let chunks = (n / 1024) as u64;
    let mode = match hs.mode {
        MMode::Hash => 0,
        MMode::Keyed(_) => 1,
        MMode::Derive(_) => 2,
        MMode::ContextKey(_) => 3,
    };
    let mut f = Fnv::default();
    f.u64(tag);
    f.u64(pc);
    f.u64(chunks.count_ones() as u64);
    f.u64(chunks.trailing_zeros().min(8) as u64);
    f.u64(mode);
    f.u64((hs.offset != 0) as u64);
    f.0
}

// ---------------------------------------------------------------------------------------------
// SimReader

pub struct SimReader<'a> {
    pub sh: &'a Shared,
    pub data: &'a [u8],
    pub pos: usize,
    pub script: &'a ReaderScript,
    pub step: usize,
    pub calls: usize,
    pub ended: bool,
    pub injected: Option<(u8, u64)>,
    pub calls_after_end: usize,
    pub zero_buf_calls: usize,
    pub nested_bad: bool,
}

#[derive(Debug)]
pub struct InjectedError(pub u64);
impl std::fmt::Display for InjectedError {
    fn fmt(&self, f: &mut std::fmt::Formatter<'_>) -> std::fmt::Result {
        write!(f, "injected error #{}", self.0)
    }
}
impl std::error::Error for InjectedError {}

pub fn err_kind(k: u8) -> std::io::ErrorKind {
    use std::io::ErrorKind::*;
    match k % 8 {
        0 => Other,
        1 => UnexpectedEof,
        2 => WouldBlock,
        3 => TimedOut,
        4 => BrokenPipe,
        5 => InvalidData,
        6 => PermissionDenied,
        _ => ConnectionReset,
    }
}

impl<'a> SimReader<'a> {
    pub fn new(sh: &'a Shared, data: &'a [u8], script: &'a ReaderScript) -> Self {
        SimReader { sh, data, pos: 0, script, step: 0, calls: 0, ended: false, injected: None, calls_after_end: 0, zero_buf_calls: 0, nested_bad: false }
    }
    fn give(&mut self, buf: &mut [u8], k: usize) -> usize {
        let n = k.min(buf.len()).min(self.data.len() - self.pos);
        buf[..n].copy_from_slice(&self.data[self.pos..self.pos + n]);
        self.pos += n;
        if self.script.junk {
            for (i, b) in buf[n..].iter_mut().enumerate() {
                *b = 0xA5 ^ (i as u8);
            }
        }
        n
    }
}

impl<'a> Read for SimReader<'a> {
    fn read(&mut self, buf: &mut [u8]) -> std::io::Result<usize> {
        sched::hook_yield(sched::SITE_READER);
        self.calls += 1;
        if self.ended {
            // reading again after EOF / a hard error is legal for a consumer but yields nothing new
            self.calls_after_end += 1;
            return Ok(0);
        }
        if buf.is_empty() {
            self.zero_buf_calls += 1;
            return Ok(0);
        }
        let st = self.script.steps.get(self.step).cloned();
        self.step += 1;
        match st {
            Some(RStep::Data(k)) => {
                let n = self.give(buf, (k as usize).max(1));
                if n == 0 {
                    self.ended = true;
                } else if n < buf.len() {
                    self.sh.fault("short_read");
                }
                Ok(n)
            }
            Some(RStep::Nest(k, nested)) => {
                let n = self.give(buf, (k as usize).max(1));
                if n == 0 {
                    self.ended = true;
                }
                // the bytes are in the consumer's buffer; now the same thread runs another reader-driven absorb
                let other: Vec<u8> = (0..nested as usize).map(|i| (i as u8).wrapping_mul(31) ^ 0x6c).collect();
                let mut h2 = blake3::Hasher::new();
                let r2 = sched::quiet(|| h2.update_reader(&other[..]).map(|h| *h.finalize().as_bytes()));
                let want2 = sched::quiet(|| *blake3::hash(&other).as_bytes());
                if r2.ok() != Some(want2) {
                    self.nested_bad = true;
                }
                self.sh.fault("nested_reader_absorb");
                Ok(n)
            }
            Some(RStep::Interrupted) => {
                self.sh.fault("interrupted");
                Err(std::io::Error::new(std::io::ErrorKind::Interrupted, InjectedError(self.calls as u64)))
            }
            Some(RStep::Err(k)) => {
                self.sh.fault("read_error");
                self.ended = true;
                let id = self.calls as u64;
                self.injected = Some((k, id));
                Err(std::io::Error::new(err_kind(k), InjectedError(id)))
            }
            Some(RStep::Eof) => {
                if self.pos < self.data.len() {
                    self.sh.fault("early_eof");
                }
                self.ended = true;
                if self.script.junk {
                    self.give(buf, 0);
                }
                Ok(0)
            }
            None => {
                let k = if self.script.tail_chunk == 0 { usize::MAX } else { self.script.tail_chunk as usize };
                let n = self.give(buf, k);
                if n == 0 {
                    self.ended = true;
                }
                Ok(n)
            }
        }
    }
}

/// Judge the outcome of a reader-driven absorb: exactly the yielded bytes were absorbed.
fn judge_reader(
    res: std::io::Result<u64>,
    rd: &SimReader<'_>,
    reports_total: bool,
) -> Result<u64, OpErr> {
    match (&res, &rd.injected) {
        (Ok(total), None) => {
            if !rd.ended {
                return viol("result-mismatch", format!("adapter returned Ok before the reader reported end of file (yielded {})", rd.pos));
            }
            if reports_total && *total != rd.pos as u64 {
                return viol("count-mismatch", format!("adapter reported {} bytes, reader yielded {}", total, rd.pos));
            }
        }
        (Ok(_), Some((k, _))) => {
            return viol("result-mismatch", format!("injected {:?} was swallowed", err_kind(*k)));
        }
        (Err(e), Some((k, id))) => {
            let same = e.kind() == err_kind(*k)
                && e.get_ref().and_then(|x| x.downcast_ref::<InjectedError>()).map(|x| x.0) == Some(*id);
            if !same {
                return viol("result-mismatch", format!("returned error {:?} is not the injected one ({:?} #{})", e, err_kind(*k), id));
            }
        }
        (Err(e), None) => {
            return viol("result-mismatch", format!("adapter returned an error nobody injected: {:?}", e));
        }
    }
    if rd.nested_bad {
        return viol("result-mismatch", "a nested update_reader on another hasher (same thread) hashed wrong bytes".into());
    }
    if rd.calls_after_end > 0 {
        return viol("result-mismatch", format!("reader was called {} more time(s) after end of file / hard error", rd.calls_after_end));
    }
    Ok(rd.pos as u64 ^ ((res.is_err() as u64) << 63))
}

// ---------------------------------------------------------------------------------------------

fn rayon_pool(width: u8) -> Arc<rayon_core::ThreadPool> {
    use std::collections::HashMap;
    use std::sync::{Mutex, OnceLock};
    static POOLS: OnceLock<Mutex<HashMap<(u8, Level), Arc<rayon_core::ThreadPool>>>> = OnceLock::new();
    let level = current_level();
    let mut g = POOLS.get_or_init(|| Mutex::new(HashMap::new())).lock().unwrap();
    g.entry((width, level))
        .or_insert_with(|| {
            Arc::new(
                rayon_core::ThreadPoolBuilder::new()
                    .num_threads(width.max(1) as usize)
                    .stack_size(TASK_STACK)
                    .start_handler(move |_| blake3::verif::set_platform(platform_of(level)))
                    .build()
                    .expect("rayon pool"),
            )
        })
        .clone()
}

/// one-thread rayon pool per simulated task: the task lends its scheduler identity to the worker for the duration of
/// a call, so that what happens inside update_mmap_rayon interleaves with the other tasks deterministically
fn adopted_pool(task: usize) -> Arc<rayon_core::ThreadPool> {
    use std::collections::HashMap;
    use std::sync::{Mutex, OnceLock};
    static POOLS: OnceLock<Mutex<HashMap<usize, Arc<rayon_core::ThreadPool>>>> = OnceLock::new();
    let mut g = POOLS.get_or_init(|| Mutex::new(HashMap::new())).lock().unwrap();
    g.entry(task)
        .or_insert_with(|| Arc::new(rayon_core::ThreadPoolBuilder::new().num_threads(1).stack_size(TASK_STACK).build().expect("rayon pool")))
        .clone()
}

/// the application's own global rayon pool, configured before the library is first used (as b3sum --num-threads
/// does); Rayon { width: 0 } runs on it
pub fn ensure_global_pool() {
    static ONCE: std::sync::Once = std::sync::Once::new();
    ONCE.call_once(|| {
        let _ = rayon_core::ThreadPoolBuilder::new().num_threads(3).stack_size(TASK_STACK).build_global();
    });
}

fn absorb_domain_ok(hs: &HSlot, len: usize) -> bool {
    if hs.offset == 0 {
        return true;
    }
    let max = 1024u128 << (hs.offset / 1024).trailing_zeros().min(60);
    (hs.absorbed.len() as u128 + len as u128) <= max
}

fn probes_absorb(sh: &Shared, hs: &HSlot, len: usize) {
    let before = hs.absorbed.len();
    if len == 0 {
        sh.probe("absorb_zero_len");
    }
    if before % 1024 != 0 && len > 1024 - before % 1024 {
        sh.probe("absorb_finishes_partial_chunk_and_continues");
    }
    let chunks_before = (before + 1023) / 1024;
    let rest = len.saturating_sub((1024 - before % 1024) % 1024);
    if rest > 1024 {
        // shrink loop iterations: largest pow2 <= rest vs alignment of count so far
        let mut sub = 1usize << (usize::BITS - 1 - rest.leading_zeros());
        let so_far = chunks_before * 1024;
        let mut it = 0;
        while (sub - 1) & so_far != 0 {
            sub /= 2;
            it += 1;
        }
        if it >= 1 {
            sh.probe("subtree_shrink_ge1");
        }
        if it >= 3 {
            sh.probe("subtree_shrink_ge3");
        }
        if sub >= 16 * 1024 && chunks_before % 2 == 0 && chunks_before > 0 {
            sh.probe("wide_subtree_ge16_after_prefix");
        }
        if chunks_before % 2 == 1 && rest >= 16 * 1024 {
            sh.probe("ge16_chunks_after_odd_prefix");
        }
    }
    let after_chunks = ((before + len) / 1024) as u64;
    if after_chunks.count_ones() >= 5 {
        sh.probe("cv_stack_depth_ge5");
    }
}

pub fn do_op(sh: &Arc<Shared>, local: &mut TaskLocal, op: &Op) -> OpResult {
    if !crate::lean::FULL && crate::lean::needs_full(op) {
        sh.probe("lean_flavour_operation_skipped");
        return Err(OpErr::Skip);
    }
    match op {
        Op::NewHasher { slot, mode, via } => {
            let m = mmode(sh, mode)?;
            let h = match (via, &m) {
                (NewVia::Trait, MMode::Hash) => <blake3::Hasher as blake3::traits::digest::Digest>::new(),
                (NewVia::Trait, MMode::Keyed(k)) => {
                    use blake3::traits::digest::KeyInit;
                    // new_from_slice: exactly 32 bytes, nothing else
                    let mut long = k.to_vec();
                    long.push(k[0] ^ 0x55);
                    if <blake3::Hasher as KeyInit>::new_from_slice(&long).is_ok() || <blake3::Hasher as KeyInit>::new_from_slice(&k[..31]).is_ok() {
                        return viol("result-mismatch", "KeyInit::new_from_slice accepted a key that is not 32 bytes long".into());
                    }
                    if k[0] & 1 == 0 {
                        match <blake3::Hasher as KeyInit>::new_from_slice(&k[..]) {
                            Ok(h) => h,
                            Err(_) => return viol("result-mismatch", "KeyInit::new_from_slice rejected a 32-byte key".into()),
                        }
                    } else {
                        let key: blake3::traits::digest::Key<blake3::Hasher> = (*k).into();
                        <blake3::Hasher as KeyInit>::new(&key)
                    }
                }
                _ => fresh_hasher(&m),
            };
            let hs = HSlot { h, mode: m, absorbed: Vec::new(), offset: 0, twin: None };
            sh.shape(shape_of(&hs, 1));
            local.slots.insert(*slot, Slot::H(Box::new(hs)));
            Ok(1)
        }
        Op::Absorb { h, data, off, len, via } => {
            let bytes = d(sh, *data, *off, *len)?;
            // C07: the caller's buffer sits flush against an inaccessible page
            let gb;
            let bytes: &[u8] = if sh.plan.cfg.guard_alloc {
                gb = crate::guard::GuardBuf::with_bytes(bytes, crate::guard::place_of((*off as u8) ^ (*len as u8).rotate_left(3) ^ (*data as u8)));
                unsafe { std::slice::from_raw_parts(gb.ptr(), gb.len()) }
            } else {
                bytes
            };
            let hs = get!(local, *h, H);
            if !absorb_domain_ok(hs, bytes.len()) {
                return Err(OpErr::Skip);
            }
            probes_absorb(sh, hs, bytes.len());
            let r = absorb(sh, hs, bytes, via)?;
            sh.shape(shape_of(hs, 2 + via_tag(via)));
            sh.stats.lock().unwrap().bytes += bytes.len() as u64;
            // count() after every call
            let c = hs.h.count();
            if c != hs.absorbed.len() as u64 {
                return viol("count-mismatch", format!("count()={} after absorbing {} bytes", c, hs.absorbed.len()));
            }
            if let Some(t) = &hs.twin {
                if t.count() != c {
                    return viol("state-diverged", format!("count()={} but fresh twin has {}", c, t.count()));
                }
            }
            Ok(r ^ c.rotate_left(17))
        }
        Op::Count { h } => {
            let hs = get!(local, *h, H);
            let c = hs.h.count();
            if c != hs.absorbed.len() as u64 {
                return viol("count-mismatch", format!("count()={} want {}", c, hs.absorbed.len()));
            }
            Ok(c ^ 0xC0)
        }
        Op::Finalize { h, via } => {
            let hs = get!(local, *h, H);
            if hs.offset != 0 {
                return Err(OpErr::Skip);
            }
            use blake3::traits::digest;
            let mut did_reset = false;
            let got: [u8; 32] = match via {
                FinVia::Inherent => *hs.h.finalize().as_bytes(),
                FinVia::TraitClone => {
                    let mut out = digest::Output::<blake3::Hasher>::default();
                    digest::FixedOutput::finalize_into(hs.h.clone(), &mut out);
                    out.into()
                }
                FinVia::TraitReset => {
                    let mut out = digest::Output::<blake3::Hasher>::default();
                    digest::FixedOutputReset::finalize_into_reset(&mut hs.h, &mut out);
                    did_reset = true;
                    out.into()
                }
                FinVia::TraitResetInto => {
                    let mut out = digest::Output::<blake3::Hasher>::default();
                    digest::FixedOutputReset::finalize_into_reset(&mut hs.h, &mut out);
                    did_reset = true;
                    out.into()
                }
                FinVia::MacOrDigest => {
                    if matches!(hs.mode, MMode::Keyed(_)) {
                        let tag: [u8; 32] = digest::Mac::finalize(hs.h.clone()).into_bytes().into();
                        // Mac::verify_slice accepts exactly this tag and nothing one bit away from it
                        if digest::Mac::verify_slice(hs.h.clone(), &tag).is_err() {
                            return viol("result-mismatch", "Mac::verify_slice rejected the tag Mac::finalize returned".into());
                        }
                        let mut bad = tag;
                        bad[(hs.absorbed.len() % 32) as usize] ^= 1 << (hs.absorbed.len() % 8);
                        if digest::Mac::verify_slice(hs.h.clone(), &bad).is_ok() {
                            return viol("result-mismatch", "Mac::verify_slice accepted a tag with one bit flipped".into());
                        }
                        if digest::Mac::verify_truncated_left(hs.h.clone(), &tag[..16]).is_err() {
                            return viol("result-mismatch", "Mac::verify_truncated_left rejected the first 16 bytes of the tag".into());
                        }
                        tag
                    } else {
                        digest::Digest::finalize(hs.h.clone()).into()
                    }
                }
            };
            check_hash(sh, hs, &got, "finalize")?;
            if let Some(t) = &hs.twin {
                let tw = sched::quiet(|| *t.finalize().as_bytes());
                if tw != got {
                    return viol("state-diverged", format!("finalize after reset {} != fresh twin {}", hx(&got), hx(&tw)));
                }
            }
            if hs.absorbed.len() % 1024 == 0 && hs.absorbed.len() > 1024 {
                sh.probe("finalize_empty_chunk_state_with_stack");
            }
            sh.shape(shape_of(hs, 40));
            if did_reset {
                after_reset(hs);
                post_reset_check(hs)?;
            }
            Ok(Fnv::of(&got))
        }
        Op::FinalizeXof { h, r, n, via } => {
            let keep = *r;
            let n = *n;
            let hs = get!(local, *h, H);
            if hs.offset != 0 {
                return Err(OpErr::Skip);
            }
            use blake3::traits::digest;
            let mut did_reset = false;
            if matches!(via, FinVia::TraitResetInto) {
                // the provided method: fills the buffer and resets; no reader is handed out
                let mut out = vec![0u8; n];
                digest::ExtendableOutputReset::finalize_xof_reset_into(&mut hs.h, &mut out);
                check_xof(sh, hs, 0, &out, "finalize_xof_reset_into")?;
                after_reset(hs);
                post_reset_check(hs)?;
                return Ok(Fnv::of(&out) ^ 0x1270);
            }
            let mut rd = match via {
                FinVia::Inherent | FinVia::MacOrDigest | FinVia::TraitResetInto => hs.h.finalize_xof(),
                FinVia::TraitClone => digest::ExtendableOutput::finalize_xof(hs.h.clone()),
                FinVia::TraitReset => {
                    did_reset = true;
                    digest::ExtendableOutputReset::finalize_xof_reset(&mut hs.h)
                }
            };
            let mut out = vec![0u8; n];
            if matches!(via, FinVia::Inherent) {
                rd.fill(&mut out);
            } else {
                digest::XofReader::read(&mut rd, &mut out);
            }
            check_xof(sh, hs, 0, &out, "finalize_xof")?;
            if rd.position() != n as u64 {
                return viol("result-mismatch", format!("position {} after reading {} bytes", rd.position(), n));
            }
            let dg = Fnv::of(&out);
            let node = if keep.is_some() { Some(hs.mode.root(&hs.absorbed)) } else { None };
            if did_reset {
                after_reset(hs);
                post_reset_check(hs)?;
            }
            if let (Some(slot), Some(node)) = (keep, node) {
                local.slots.insert(slot, Slot::R(Box::new(RSlot { r: rd, node, pos: n as u64 })));
            }
            Ok(dg)
        }
        Op::ConcurrentFinalize { h, n } => concurrent_finalize(sh, local, *h, *n),
        Op::ParallelRayon { items, width } => {
            // take the hashers out of their slots, feed them all inside one pool scope, put them back
            let mut taken: Vec<(usize, Box<HSlot>, &[u8])> = Vec::new();
            for (h, data, off, len) in items {
                let bytes = d(sh, *data, *off, *len)?;
                if taken.iter().any(|(s, _, _)| s == h) {
                    continue;
                }
                match local.slots.remove(h) {
                    Some(Slot::H(x)) if absorb_domain_ok(&x, bytes.len()) => taken.push((*h, x, bytes)),
                    Some(other) => {
                        local.slots.insert(*h, other);
                    }
                    None => {}
                }
            }
            if taken.is_empty() {
                return Err(OpErr::Skip);
            }
            let pool = rayon_pool((*width).max(2));
            let res = std::panic::catch_unwind(std::panic::AssertUnwindSafe(|| {
                pool.scope(|s| {
                    for (_, hs, bytes) in taken.iter_mut() {
                        let b: &[u8] = bytes;
                        s.spawn(move |_| {
                            hs.h.update_rayon(b);
                        });
                    }
                });
            }));
            let mut f = Fnv::default();
            let mut verdict: Result<(), OpErr> = Ok(());
            for (slot, mut hs, bytes) in taken {
                hs.absorbed.extend_from_slice(bytes);
                twin_update(&mut hs, bytes);
                if verdict.is_ok() && res.is_ok() {
                    let c = hs.h.count();
                    if c != hs.absorbed.len() as u64 {
                        verdict = viol("count-mismatch", format!("count()={} after a parallel update_rayon, {} bytes absorbed", c, hs.absorbed.len()));
                    } else if hs.offset == 0 {
                        let got = *hs.h.finalize().as_bytes();
                        if let Err(e) = check_hash(sh, &hs, &got, "finalize after parallel update_rayon") {
                            verdict = Err(e);
                        }
                        f.bytes(&got);
                    }
                }
                local.slots.insert(slot, Slot::H(hs));
            }
            if res.is_err() {
                return viol("panic", format!("update_rayon panicked while several hashers were fed inside one pool: {}", last_panic()));
            }
            verdict?;
            sh.probe("parallel_update_rayon_in_one_pool");
            Ok(f.0)
        }
        Op::Reset { h, via } => {
            let hs = get!(local, *h, H);
            match via {
                ResetVia::Inherent => {
                    hs.h.reset();
                }
                ResetVia::DigestReset => blake3::traits::digest::Reset::reset(&mut hs.h),
            }
            if hs.offset != 0 {
                sh.probe("reset_after_input_offset");
            }
            if hs.absorbed.len() % 1024 != 0 {
                sh.probe("reset_with_partial_chunk");
            }
            if (hs.absorbed.len() / 1024).count_ones() >= 2 {
                sh.probe("reset_with_stack_ge2");
            }
            after_reset(hs);
            post_reset_check(hs)?;
            sh.shape(shape_of(hs, 50));
            Ok(0x5e5e7)
        }
        Op::SetOffset { h, off } => {
            let hs = get!(local, *h, H);
            if !hs.absorbed.is_empty() || off % 1024 != 0 {
                return Err(OpErr::Skip);
            }
            hs.h.set_input_offset(*off);
            if let Some(t) = hs.twin.as_mut() {
                sched::quiet(|| {
                    t.set_input_offset(*off);
                });
            }
            hs.offset = *off;
            let c = hs.h.count();
            if c != 0 {
                return viol("count-mismatch", format!("count()={} right after set_input_offset({})", c, off));
            }
            if *off >= (1u64 << 42) {
                sh.probe("offset_chunk_counter_ge_2^32");
            }
            Ok(0x0ff5e7 ^ off)
        }
        Op::FinalizeNonRoot { h, cv } => {
            let hs = get!(local, *h, H);
            if hs.absorbed.is_empty() {
                return Err(OpErr::Skip);
            }
            let got = hs.h.finalize_non_root();
            let want = hs.mode.subtree_cv(&hs.absorbed, hs.offset);
            if got != want {
                return viol(
                    "result-mismatch",
                    format!("finalize_non_root at offset {} over {} bytes: got {} want spec {}", hs.offset, hs.absorbed.len(), hx(&got), hx(&want)),
                );
            }
            if let Some(t) = &hs.twin {
                let tw = sched::quiet(|| t.finalize_non_root());
                if tw != got {
                    return viol("state-diverged", "finalize_non_root after reset differs from fresh twin".into());
                }
            }
            let mode = hs.mode.clone();
            let (bytes, off) = (hs.absorbed.clone(), hs.offset);
            local.slots.insert(*cv, Slot::Cv(CvSlot { cv: got, mode, bytes: Some(bytes), off }));
            Ok(Fnv::of(&got))
        }
        Op::CloneH { h, new } => {
            let hs = get!(local, *h, H);
            let c = HSlot {
                h: hs.h.clone(),
                mode: hs.mode.clone(),
                absorbed: hs.absorbed.clone(),
                offset: hs.offset,
                twin: hs.twin.clone(),
            };
            if c.h.count() != c.absorbed.len() as u64 {
                return viol("count-mismatch", "clone has a different count()".into());
            }
            local.slots.insert(*new, Slot::H(Box::new(c)));
            Ok(0xc10e)
        }
        Op::CloneFromH { src, dst } => {
            if src == dst {
                return Err(OpErr::Skip);
            }
            let (sh_h, s_mode, s_abs, s_off, s_twin) = match local.slots.get(src) {
                Some(Slot::H(x)) => (x.h.clone(), x.mode.clone(), x.absorbed.clone(), x.offset, x.twin.clone()),
                _ => return Err(OpErr::Skip),
            };
            let d = get!(local, *dst, H);
            if (d.absorbed.len() / 1024).count_ones() > (s_abs.len() / 1024).count_ones() {
                sh.probe("clone_from_into_deeper_stack");
            }
            d.h.clone_from(&sh_h);
            d.mode = s_mode;
            d.absorbed = s_abs;
            d.offset = s_off;
            d.twin = s_twin;
            if d.h.count() != d.absorbed.len() as u64 {
                return viol("count-mismatch", "clone_from: destination has a different count() than the source".into());
            }
            Ok(0xc10f)
        }
        Op::DropSlot { slot } => {
            local.slots.remove(slot);
            Ok(0xd)
        }
        Op::Send { slot, to } => {
            let Some(s) = local.slots.remove(slot) else { return Err(OpErr::Skip) };
            let key = *slot * 64 + (*to % 64);
            sh.mailbox.lock().unwrap().insert(key, s);
            sh.sched.send(local.id, key);
            sh.probe("object_moved_between_tasks");
            Ok(0x5e4d)
        }
        Op::Recv { slot } => match sh.sched.recv(local.id, *slot * 64 + (local.id % 64)) {
            Ok(()) => {
                let s = sh.mailbox.lock().unwrap().remove(&(*slot * 64 + (local.id % 64)));
                match s {
                    Some(s) => {
                        local.slots.insert(*slot, s);
                        Ok(0x4ec7)
                    }
                    None => Err(OpErr::Harness("mailbox empty after recv".into())),
                }
            }
            Err(_) => Err(OpErr::Skip),
        },
        Op::Read { r, n, via } => {
            let rs = get!(local, *r, R);
            let n = *n;
            if (rs.pos as u128) + (n as u128) > MAX_POS as u128 {
                return Err(OpErr::Skip);
            }
            let gout;
            let mut vout;
            let out: &mut [u8] = if sh.plan.cfg.guard_alloc {
                gout = crate::guard::GuardBuf::new(n, crate::guard::place_of((n as u8) ^ (rs.pos as u8).rotate_left(2)));
                unsafe { std::slice::from_raw_parts_mut(gout.ptr(), n) }
            } else {
                vout = vec![0x5Au8; n];
                &mut vout[..]
            };
            let got_n: usize = match via {
                ReadVia::Fill => {
                    rs.r.fill(out);
                    n
                }
                ReadVia::XofReader => {
                    blake3::traits::digest::XofReader::read(&mut rs.r, out);
                    n
                }
                ReadVia::Read => match rs.r.read(out) {
                    Ok(k) => k,
                    Err(e) => return viol("result-mismatch", format!("Read::read failed: {e}")),
                },
                ReadVia::ReadExact => match rs.r.read_exact(out) {
                    Ok(()) => n,
                    Err(e) => return viol("result-mismatch", format!("read_exact failed: {e}")),
                },
                ReadVia::Take => {
                    let mut v = Vec::new();
                    match (&mut rs.r).take(n as u64).read_to_end(&mut v) {
                        Ok(k) => {
                            if k == n {
                                out.copy_from_slice(&v);
                            }
                            k
                        }
                        Err(e) => return viol("result-mismatch", format!("take().read_to_end failed: {e}")),
                    }
                }
                ReadVia::IoCopy => {
                    let mut v: Vec<u8> = Vec::new();
                    match std::io::copy(&mut (&mut rs.r).take(n as u64), &mut v) {
                        Ok(k) => {
                            if k as usize == n {
                                out.copy_from_slice(&v);
                            }
                            k as usize
                        }
                        Err(e) => return viol("result-mismatch", format!("io::copy failed: {e}")),
                    }
                }
            };
            if got_n != n {
                return viol("result-mismatch", format!("{:?} returned {} for a {}-byte buffer", via, got_n, n));
            }
            let want = rs.node.stream(rs.pos, n);
            if out[..] != want[..] {
                let i = first_diff(out, &want);
                return viol(
                    "result-mismatch",
                    format!("output stream differs from spec at byte {} of a {}-byte read at position {}", i, n, rs.pos),
                );
            }
            let p0 = rs.pos;
            rs.pos += n as u64;
            let p = rs.r.position();
            if p != rs.pos {
                return viol("result-mismatch", format!("position()={} after reading {} at {}", p, n, p0));
            }
            if n > 0 {
                if p0 / 64 < (1 << 32) && (rs.pos - 1) / 64 >= (1 << 32) {
                    sh.probe("xof_counter_crossed_2^32_inside_read");
                }
                if p0 / 64 >= (1 << 32) {
                    sh.probe("xof_counter_above_2^32");
                }
                if p0 % 64 != 0 && n >= 64 + (64 - (p0 % 64) as usize) {
                    sh.probe("xof_partial_then_whole_blocks");
                }
                if n >= 16 * 64 {
                    sh.probe("xof_read_ge16_blocks");
                }
            }
            let mut f = Fnv::default();
            f.u64(100 + (*via as u64));
            f.u64(p0 % 64);
            f.u64((n as u64).min(3 * 64) / 32);
            f.u64((p0 / 64 >= 1 << 32) as u64);
            sh.shape(f.0);
            Ok(Fnv::of(out) ^ rs.pos)
        }
        Op::SetPosition { r, p } => {
            let rs = get!(local, *r, R);
            rs.r.set_position(*p);
            rs.pos = *p;
            let q = rs.r.position();
            if q != *p {
                return viol("result-mismatch", format!("position()={} after set_position({})", q, p));
            }
            Ok(*p ^ 0x5e7)
        }
        Op::Seek { r, whence, v, vu } => {
            let rs = get!(local, *r, R);
            let (sf, target): (std::io::SeekFrom, Option<i128>) = match whence {
                Whence::Start => (std::io::SeekFrom::Start(*vu), Some(*vu as i128)),
                Whence::Current => (std::io::SeekFrom::Current(*v), Some(rs.pos as i128 + *v as i128)),
                Whence::End => (std::io::SeekFrom::End(*v), None),
            };
            if let Some(t) = target {
                if t > MAX_POS as i128 {
                    return Err(OpErr::Skip); // the property is silent on clamping
                }
            }
            let res = rs.r.seek(sf);
            let must_fail = match target {
                None => true,
                Some(t) => t < 0,
            };
            if must_fail {
                sh.fault("failing_seek");
                if res.is_ok() {
                    return viol("result-mismatch", format!("seek {:?} succeeded but must fail", sf));
                }
                let q = rs.r.position();
                if q != rs.pos {
                    return viol("result-mismatch", format!("failed seek moved the position from {} to {}", rs.pos, q));
                }
                Ok(0xbad5eec)
            } else {
                let t = target.unwrap() as u64;
                match res {
                    Ok(q) if q == t => {}
                    other => return viol("result-mismatch", format!("seek {:?} returned {:?}, want Ok({})", sf, other, t)),
                }
                rs.pos = t;
                let q = rs.r.position();
                if q != t {
                    return viol("result-mismatch", format!("position()={} after seek to {}", q, t));
                }
                Ok(t ^ 0x5eec)
            }
        }
        Op::Position { r } => {
            let rs = get!(local, *r, R);
            let q = rs.r.position();
            if q != rs.pos {
                return viol("result-mismatch", format!("position()={} want {}", q, rs.pos));
            }
            Ok(q)
        }
        Op::CloneR { r, new } => {
            let rs = get!(local, *r, R);
            let c = RSlot { r: rs.r.clone(), node: rs.node.clone(), pos: rs.pos };
            local.slots.insert(*new, Slot::R(Box::new(c)));
            Ok(0xc10e2)
        }
        Op::OneShot { mode, data, off, len } => {
            let bytes = d(sh, *data, *off, *len)?;
            let m = mmode(sh, mode)?;
            let got: [u8; 32] = match &m {
                MMode::Hash => *blake3::hash(bytes).as_bytes(),
                MMode::Keyed(k) => crate::stable::with_key(0, k, |k| *blake3::keyed_hash(k, bytes).as_bytes()),
                MMode::Derive(c) => crate::stable::with_ctx(std::str::from_utf8(c).unwrap(), |c| blake3::derive_key(c, bytes)),
                MMode::ContextKey(k) => crate::stable::with_key(0, k, |k| *blake3::Hasher::new_from_context_key(k).update(bytes).finalize().as_bytes()),
            };
            if sh.plan.cfg.model_oracle {
                let want = m.root(bytes).root_hash();
                if got != want {
                    return viol("result-mismatch", format!("one-shot {} want spec {}", hx(&got), hx(&want)));
                }
            }
            Ok(Fnv::of(&got))
        }
        Op::TraitOneShot { data, off, len, which, n } => {
            use blake3::traits::digest::{Digest, ExtendableOutput};
            let bytes = d(sh, *data, *off, *len)?;
            let node = MMode::Hash.root(bytes);
            let got: Vec<u8> = match which % 4 {
                0 => <blake3::Hasher as Digest>::digest(bytes).to_vec(),
                1 => {
                    let mut out = vec![0u8; *n];
                    <blake3::Hasher as ExtendableOutput>::digest_xof(bytes, &mut out);
                    out
                }
                2 => <blake3::Hasher as Digest>::new_with_prefix(bytes).finalize().to_vec(),
                _ => {
                    let cut = bytes.len() / 3;
                    <blake3::Hasher as Digest>::new().chain_update(&bytes[..cut]).chain_update(&bytes[cut..]).finalize().to_vec()
                }
            };
            let want = node.stream(0, got.len());
            if got != want {
                let i = first_diff(&got, &want);
                return viol("result-mismatch", format!("trait one-shot entry point {} over {} bytes differs from the spec at byte {i} of {}", which % 4, bytes.len(), got.len()));
            }
            sh.probe("trait_one_shot");
            Ok(Fnv::of(&got))
        }
        Op::Cancel => {
            sh.fault("client_cancelled");
            Ok(0xca)
        }
        Op::Merge { .. }
        | Op::HelperLeftLen { .. }
        | Op::HelperMaxLen { .. }
        | Op::GutsChunk { .. }
        | Op::GutsParent { .. } => crate::ops2::do_op2(sh, local, op),
        Op::DebugFmt { .. } | Op::Zeroize { .. } => crate::ops2::do_op2(sh, local, op),
        Op::Kernel { k, a } => crate::kernels::do_kernel(sh, *k, a),
        Op::CliFile { .. }
        | Op::CliFsFault { .. }
        | Op::CliHash { .. }
        | Op::CliDamage { .. }
        | Op::CliCheck { .. }
        | Op::PathRoundTrip { .. }
        | Op::ParseMutations { .. }
        | Op::ParseLine { .. }
        | Op::FileKinds { .. }
        | Op::HugeFile { .. }
        | Op::CliSpecial { .. }
        | Op::SysFault { .. } => crate::cli::do_cli(sh, local, op),
        Op::CInit { .. } | Op::CUpdate { .. } | Op::CFinalize { .. } | Op::CFinalizeHuge { .. } | Op::CUpdateHuge { .. } | Op::CReset { .. } | Op::CCopy { .. } | Op::CSetMask { .. } => {
            crate::cnode::do_cop(sh, local, op)
        }
    }
}

fn after_reset(hs: &mut HSlot) {
    hs.absorbed.clear();
    hs.offset = 0;
    hs.twin = Some(sched::quiet(|| fresh_hasher(&hs.mode)));
}

fn post_reset_check(hs: &HSlot) -> Result<(), OpErr> {
    let c = hs.h.count();
    if c != 0 {
        return viol("state-diverged", format!("count()={} right after reset, a new hasher has 0", c));
    }
    Ok(())
}

fn via_tag(v: &AbsorbVia) -> u64 {
    match v {
        AbsorbVia::Update => 0,
        AbsorbVia::Write => 1,
        AbsorbVia::WriteAll => 2,
        AbsorbVia::WriteVectored { .. } => 22,
        AbsorbVia::IoCopy(_) => 3,
        AbsorbVia::Reader(_) => 4,
        AbsorbVia::ReaderDyn(_) => 5,
        AbsorbVia::ReaderRetry(_) => 21,
        AbsorbVia::Rayon { .. } => 6,
        AbsorbVia::SimJoin(_) => 7,
        AbsorbVia::Mmap => 8,
        AbsorbVia::MmapRayon => 9,
        AbsorbVia::ReaderFile => 10,
        AbsorbVia::SharedFile { how } => 14 + *how as u64 % 3,
        AbsorbVia::PathError { how } => 17 + *how as u64 % 4,
        AbsorbVia::TraitUpdate => 11,
        AbsorbVia::MacUpdate => 12,
        AbsorbVia::DigestUpdate => 13,
    }
}

fn twin_update(hs: &mut HSlot, bytes: &[u8]) {
    if let Some(t) = hs.twin.as_mut() {
        sched::quiet(|| {
            t.update(bytes);
        });
    }
}

fn absorb(sh: &Arc<Shared>, hs: &mut HSlot, bytes: &[u8], via: &AbsorbVia) -> OpResult {
    use blake3::traits::digest;
    let all = |hs: &mut HSlot| {
        hs.absorbed.extend_from_slice(bytes);
        twin_update(hs, bytes);
    };
    match via {
        AbsorbVia::Update => {
            hs.h.update(bytes);
            all(hs);
            Ok(1)
        }
        AbsorbVia::TraitUpdate => {
            digest::Update::update(&mut hs.h, bytes);
            all(hs);
            Ok(1)
        }
        AbsorbVia::DigestUpdate => {
            digest::Digest::update(&mut hs.h, bytes);
            all(hs);
            Ok(1)
        }
        AbsorbVia::MacUpdate => {
            digest::Mac::update(&mut hs.h, bytes);
            all(hs);
            Ok(1)
        }
        AbsorbVia::Write => {
            let r = hs.h.write(bytes);
            match r {
                Ok(k) if k == bytes.len() => {}
                other => {
                    // record what was really consumed so the state oracle stays meaningful
                    return viol("result-mismatch", format!("Write::write returned {:?} for a {}-byte buffer", other, bytes.len()));
                }
            }
            all(hs);
            Ok(2)
        }
        AbsorbVia::WriteVectored { cuts } => {
            let mut rest: &[u8] = bytes;
            let mut rounds = 0;
            while !rest.is_empty() {
                let mut slices: Vec<std::io::IoSlice> = Vec::new();
                let mut at = 0usize;
                let mut k = rounds;
                while at < rest.len() && slices.len() < 12 {
                    let c = (cuts.get(k % cuts.len().max(1)).copied().unwrap_or(64) as usize).min(rest.len() - at);
                    slices.push(std::io::IoSlice::new(&rest[at..at + c]));
                    at += c;
                    k += 1;
                }
                if at == 0 {
                    // only empty slices so far: add a real one, or nothing would ever be consumed
                    let c = rest.len().min(64);
                    slices.push(std::io::IoSlice::new(&rest[..c]));
                    at = c;
                }
                let n = match hs.h.write_vectored(&slices) {
                    Ok(n) => n,
                    Err(e) => return viol("result-mismatch", format!("write_vectored failed: {e}")),
                };
                if n > at || (n == 0 && at > 0) {
                    return viol("result-mismatch", format!("write_vectored returned {n} for slices holding {at} bytes"));
                }
                rest = &rest[n..];
                rounds += 1;
            }
            let _ = hs.h.flush();
            all(hs);
            sh.probe("write_vectored");
            Ok(3)
        }
        AbsorbVia::WriteAll => {
            if let Err(e) = hs.h.write_all(bytes).and_then(|_| hs.h.flush()) {
                return viol("result-mismatch", format!("write_all failed: {e}"));
            }
            all(hs);
            Ok(3)
        }
        AbsorbVia::Rayon { width: 0 } => {
            // called from outside any pool: the joins are injected into the global pool
            ensure_global_pool();
            let level = current_level();
            rayon_core::broadcast(|_| blake3::verif::set_platform(platform_of(level)));
            hs.h.update_rayon(bytes);
            all(hs);
            sh.probe("real_rayon_global_pool");
            Ok(4)
        }
        AbsorbVia::Rayon { width } => {
            let pool = rayon_pool(*width);
            let h = &mut hs.h;
            pool.install(|| {
                h.update_rayon(bytes);
            });
            all(hs);
            sh.probe("real_rayon_pool");
            Ok(4)
        }
        AbsorbVia::SimJoin(policy) => {
            set_joinctl(Some(JoinCtl {
                policy: policy.clone(),
                counter: Arc::new(AtomicUsize::new(0)),
                width: sh.plan.cfg.pool_width.max(1) as usize,
                shared: sh.clone(),
            }));
            hs.h.verif_update_with_join(bytes);
            set_joinctl(None);
            all(hs);
            Ok(5)
        }
        AbsorbVia::ReaderRetry(script) => {
            let mut rd = SimReader::new(sh, bytes, script);
            let res = hs.h.update_reader(&mut rd).map(|_| 0);
            let yielded = rd.pos;
            hs.absorbed.extend_from_slice(&bytes[..yielded]);
            twin_update(hs, &bytes[..yielded]);
            let r1 = judge_reader(res, &rd, false)?;
            if yielded < bytes.len() {
                sh.probe("reader_retry_after_early_stop");
                let rest = &bytes[yielded..];
                let clean = ReaderScript { steps: vec![], junk: false, tail_chunk: 0 };
                let mut rd2 = SimReader::new(sh, rest, &clean);
                let res2 = hs.h.update_reader(&mut rd2).map(|_| 0);
                let y2 = rd2.pos;
                hs.absorbed.extend_from_slice(&rest[..y2]);
                twin_update(hs, &rest[..y2]);
                judge_reader(res2, &rd2, false)?;
                if y2 != rest.len() {
                    return viol("result-mismatch", format!("retry after an early stop: a well-behaved reader over {} bytes was read only up to {}", rest.len(), y2));
                }
            }
            Ok(r1 ^ 0x7e7)
        }
        AbsorbVia::Reader(script) | AbsorbVia::ReaderDyn(script) | AbsorbVia::IoCopy(script) => {
            let mut rd = SimReader::new(sh, bytes, script);
            let (res, reports_total): (std::io::Result<u64>, bool) = match via {
                AbsorbVia::Reader(_) => (hs.h.update_reader(&mut rd).map(|_| 0), false),
                AbsorbVia::ReaderDyn(_) => {
                    let dynr: &mut dyn Read = &mut rd;
                    (hs.h.update_reader(dynr).map(|_| 0), false)
                }
                _ => (std::io::copy(&mut rd, &mut hs.h), true),
            };
            let yielded = rd.pos;
            hs.absorbed.extend_from_slice(&bytes[..yielded]);
            twin_update(hs, &bytes[..yielded]);
            if rd.pos < bytes.len() && rd.injected.is_none() {
                sh.probe("reader_stopped_before_data_end");
            }
            if rd.injected.is_some() {
                sh.probe("reader_hard_error_surfaced");
            }
            judge_reader(res, &rd, reports_total)
        }
        AbsorbVia::PathError { how } => {
            let dir = sh.scratch_dir()?;
            let p = if how % 4 < 2 { dir.join("no-such-file") } else { dir.clone() };
            let res: std::io::Result<()> = if how % 2 == 0 {
                hs.h.update_mmap(&p).map(|_| ())
            } else {
                let pool = rayon_pool(2);
                let h = &mut hs.h;
                pool.install(|| h.update_mmap_rayon(&p).map(|_| ()))
            };
            if res.is_ok() {
                return viol("result-mismatch", format!("hashing {} by path succeeded", if how % 4 < 2 { "a missing file" } else { "a directory" }));
            }
            sh.fault(if how % 4 < 2 { "path_missing" } else { "path_is_directory" });
            // nothing was absorbed: count() is compared by the caller, every later result by its own oracle
            Ok(8)
        }
        AbsorbVia::SharedFile { how } => {
            let p = sh.scratch_dir()?.join(format!("shared-{:016x}-{}", Fnv::of(bytes), bytes.len()));
            if !p.exists() {
                std::fs::write(&p, bytes).map_err(|e| OpErr::Harness(format!("shared file: {e}")))?;
            }
            let res: std::io::Result<()> = match how % 3 {
                0 => hs.h.update_mmap(&p).map(|_| ()),
                1 => {
                    let ctx = sched::current();
                    let pool = adopted_pool(ctx.as_ref().map_or(0, |c| c.1));
                    let level = current_level();
                    let h = &mut hs.h;
                    pool.install(|| {
                        struct Unadopt;
                        impl Drop for Unadopt {
                            fn drop(&mut self) {
                                sched::set_ctx(None);
                            }
                        }
                        blake3::verif::set_platform(platform_of(level));
                        blake3::verif::set_yield_hook(Some(sched::hook_yield));
                        if let Some((s, id)) = ctx.clone() {
                            sched::set_ctx(Some(sched::TaskCtx { sched: s, id, quiet: 0 }));
                        }
                        let _u = Unadopt;
                        h.update_mmap_rayon(&p).map(|_| ())
                    })
                }
                _ => std::fs::File::open(&p).and_then(|f| hs.h.update_reader(f).map(|_| ())),
            };
            if let Err(e) = res {
                return viol("result-mismatch", format!("{:?} of a regular {}-byte file (shared with other tasks) failed: {e}", via, bytes.len()));
            }
            sh.probe(match how % 3 {
                0 => "shared_file_update_mmap",
                1 => "shared_file_update_mmap_rayon_adopted_pool",
                _ => "shared_file_update_reader",
            });
            all(hs);
            Ok(7)
        }
        AbsorbVia::Mmap | AbsorbVia::MmapRayon | AbsorbVia::ReaderFile => {
            let p = sh.scratch_file(bytes)?;
            let res: std::io::Result<()> = match via {
                AbsorbVia::Mmap => hs.h.update_mmap(&p).map(|_| ()),
                AbsorbVia::MmapRayon => {
                    // pools of 1, 2 and 4 threads (a function of the plan)
                    let pool = rayon_pool([1u8, 2, 4][bytes.len() % 3]);
                    let h = &mut hs.h;
                    pool.install(|| h.update_mmap_rayon(&p).map(|_| ()))
                }
                _ => std::fs::File::open(&p).and_then(|f| hs.h.update_reader(f).map(|_| ())),
            };
            let _ = std::fs::remove_file(&p);
            if let Err(e) = res {
                return viol("result-mismatch", format!("{:?} of a regular {}-byte file failed: {e}", via, bytes.len()));
            }
            if bytes.len() >= 16384 {
                sh.probe("file_at_or_above_mmap_threshold");
            } else {
                sh.probe("file_below_mmap_threshold");
            }
            all(hs);
            Ok(6)
        }
    }
}

fn concurrent_finalize(sh: &Arc<Shared>, local: &mut TaskLocal, h: usize, n: usize) -> OpResult {
    let hs = get!(local, h, H);
    if hs.offset != 0 {
        return Err(OpErr::Skip);
    }
    let Some((sc, id)) = sched::current() else { return Err(OpErr::Skip) };
    let href = &hs.h;
    let level = current_level();
    let mut outs: Vec<Result<(Vec<u8>, [u8; 32]), String>> = Vec::new();
    let mine;
    {
        let c1 = sc.spawn_child(id);
        let c2 = sc.spawn_child(id);
        let cells: Vec<std::sync::Mutex<Option<Result<(Vec<u8>, [u8; 32]), String>>>> =
            vec![std::sync::Mutex::new(None), std::sync::Mutex::new(None)];
        let mut handles = Vec::new();
        let mut tslots = Vec::new();
        for (k, c) in [c1, c2].into_iter().enumerate() {
            let sc2 = sc.clone();
            let cell = &cells[k];
            let tslot = sc.alloc_thread_slot(16);
            tslots.push(tslot);
            handles.push(crate::tpool::run_scoped_on(tslot, Box::new(move || {
                sched::set_ctx(Some(sched::TaskCtx { sched: sc2.clone(), id: c, quiet: 0 }));
                apply_level(level);
                set_in_task(true);
                sc2.task_begin(c);
                let r = std::panic::catch_unwind(std::panic::AssertUnwindSafe(|| {
                    let mut out = vec![0u8; n];
                    href.finalize_xof().fill(&mut out);
                    let hh = *href.finalize().as_bytes();
                    (out, hh)
                }));
                let msg = if r.is_err() { last_panic() } else { String::new() };
                set_in_task(false);
                blake3::verif::set_platform(None);
                sched::set_ctx(None);
                *cell.lock().unwrap() = Some(r.map_err(|_| msg));
                sc2.task_end(c);
            })));
        }
        let mine_ = std::panic::catch_unwind(std::panic::AssertUnwindSafe(|| *href.finalize().as_bytes()));
        sc.block_join(id, c1);
        sc.block_join(id, c2);
        for h in handles.iter_mut() {
            h.wait();
        }
        drop(handles);
        for t in tslots {
            sc.free_thread_slot(t);
        }
        let rs: Vec<_> = cells.into_iter().map(|c| c.into_inner().unwrap().unwrap_or(Err("child did not run".into()))).collect();
        let res = (mine_, rs);
        mine = res.0;
        outs.extend(res.1);
    }
    sh.probe("concurrent_finalize_of_shared_hasher");
    let mine = match mine {
        Ok(m) => m,
        Err(_) => return viol("panic", format!("finalize on shared &Hasher panicked: {}", last_panic())),
    };
    check_hash(sh, hs, &mine, "concurrent finalize (parent)")?;
    let mut f = Fnv::default();
    f.bytes(&mine);
    for o in outs {
        match o {
            Err(m) => return viol("panic", format!("finalize on shared &Hasher panicked in child: {m}")),
            Ok((x, hh)) => {
                check_xof(sh, hs, 0, &x, "concurrent finalize_xof (child)")?;
                check_hash(sh, hs, &hh, "concurrent finalize (child)")?;
                f.bytes(&x);
            }
        }
    }
    Ok(f.0)
}
