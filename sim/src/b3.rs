//! b3sum's own source compiled into the harness, untouched, so that its private
//! functions (parse_check_line, filepath_to_string, unescape) can be called
//! in-process at high volume. The wrappers below are written after the
//! `include!` and therefore see the file's private items.
#![allow(dead_code, unused_imports)]

// (not in the lean flavour: b3sum itself needs the mmap and rayon features of the crate)
#[cfg(feature = "par")]
include!(concat!(env!("VERIF_B3SUM_MAIN")));

pub struct Parsed {
    pub path: std::path::PathBuf,
    pub hash: [u8; 32],
    pub file_string: String,
    pub is_escaped: bool,
}

/// false: the private items have another shape in this tree (see build.rs); the in-process family is skipped
pub const PRIVATE_API: bool = cfg!(all(b3sum_private_api, feature = "par"));

#[cfg(all(b3sum_private_api, feature = "par"))]
pub fn verif_parse(line: &str) -> Result<Parsed, String> {
    match parse_check_line(line) {
        Ok(p) => Ok(Parsed { path: p.file_path, hash: *p.expected_hash.as_bytes(), file_string: p.file_string, is_escaped: p.is_escaped }),
        Err(e) => Err(e.to_string()),
    }
}

#[cfg(all(b3sum_private_api, feature = "par"))]
pub fn verif_filepath_to_string(p: &std::path::Path) -> (String, bool) {
    let f = filepath_to_string(p);
    (f.filepath_string, f.is_escaped)
}

#[cfg(not(all(b3sum_private_api, feature = "par")))]
pub fn verif_parse(_line: &str) -> Result<Parsed, String> {
    Err("unavailable".into())
}

#[cfg(not(all(b3sum_private_api, feature = "par")))]
pub fn verif_filepath_to_string(_p: &std::path::Path) -> (String, bool) {
    (String::new(), false)
}
