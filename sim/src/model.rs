//! SpecModel: an independent, deliberately naive implementation of the BLAKE3
//! paper's definition. Shares no code with /repo (neither reference_impl nor
//! portable.rs). Pinned by frozen known-answer vectors (`selftest`).

pub const IV: [u32; 8] = [
    0x6A09E667, 0xBB67AE85, 0x3C6EF372, 0xA54FF53A, 0x510E527F, 0x9B05688C, 0x1F83D9AB, 0x5BE0CD19,
];

pub const F_CHUNK_START: u32 = 1;
pub const F_CHUNK_END: u32 = 2;
pub const F_PARENT: u32 = 4;
pub const F_ROOT: u32 = 8;
pub const F_KEYED_HASH: u32 = 16;
pub const F_DERIVE_KEY_CONTEXT: u32 = 32;
pub const F_DERIVE_KEY_MATERIAL: u32 = 64;

// The message word permutation of section 2.2 (applied between rounds).
const PERM: [usize; 16] = [2, 6, 3, 10, 7, 0, 4, 13, 1, 11, 12, 5, 9, 14, 15, 8];

#[inline(always)]
fn g(v: &mut [u32; 16], a: usize, b: usize, c: usize, d: usize, x: u32, y: u32) {
    v[a] = v[a].wrapping_add(v[b]).wrapping_add(x);
    v[d] = (v[d] ^ v[a]).rotate_right(16);
    v[c] = v[c].wrapping_add(v[d]);
    v[b] = (v[b] ^ v[c]).rotate_right(12);
    v[a] = v[a].wrapping_add(v[b]).wrapping_add(y);
    v[d] = (v[d] ^ v[a]).rotate_right(8);
    v[c] = v[c].wrapping_add(v[d]);
    v[b] = (v[b] ^ v[c]).rotate_right(7);
}

/// The compression function, full 16-word output.
pub fn compress(h: &[u32; 8], m: &[u32; 16], t: u64, b: u32, d: u32) -> [u32; 16] {
    let mut v = [
        h[0], h[1], h[2], h[3], h[4], h[5], h[6], h[7], IV[0], IV[1], IV[2], IV[3], t as u32,
        (t >> 32) as u32, b, d,
    ];
    let mut m = *m;
    for round in 0..7 {
        g(&mut v, 0, 4, 8, 12, m[0], m[1]);
        g(&mut v, 1, 5, 9, 13, m[2], m[3]);
        g(&mut v, 2, 6, 10, 14, m[4], m[5]);
        g(&mut v, 3, 7, 11, 15, m[6], m[7]);
        g(&mut v, 0, 5, 10, 15, m[8], m[9]);
        g(&mut v, 1, 6, 11, 12, m[10], m[11]);
        g(&mut v, 2, 7, 8, 13, m[12], m[13]);
        g(&mut v, 3, 4, 9, 14, m[14], m[15]);
        if round < 6 {
            let mut p = [0u32; 16];
            for i in 0..16 {
                p[i] = m[PERM[i]];
            }
            m = p;
        }
    }
    let mut out = [0u32; 16];
    for i in 0..8 {
        out[i] = v[i] ^ v[i + 8];
        out[i + 8] = v[i + 8] ^ h[i];
    }
    out
}

fn words_of_block(bytes: &[u8]) -> [u32; 16] {
    // bytes.len() <= 64; zero padded
    let mut blk = [0u8; 64];
    blk[..bytes.len()].copy_from_slice(bytes);
    let mut w = [0u32; 16];
    for i in 0..16 {
        w[i] = u32::from_le_bytes([blk[4 * i], blk[4 * i + 1], blk[4 * i + 2], blk[4 * i + 3]]);
    }
    w
}

pub fn key_words(key: &[u8; 32]) -> [u32; 8] {
    let mut w = [0u32; 8];
    for i in 0..8 {
        w[i] = u32::from_le_bytes([key[4 * i], key[4 * i + 1], key[4 * i + 2], key[4 * i + 3]]);
    }
    w
}

pub fn cv_bytes(w: &[u32]) -> Vec<u8> {
    let mut out = Vec::with_capacity(w.len() * 4);
    for x in w {
        out.extend_from_slice(&x.to_le_bytes());
    }
    out
}

/// A node of the tree just before its last compression: either it yields a
/// chaining value, or (as the root) any number of output blocks.
#[derive(Clone, Debug)]
pub struct Node {
    pub h: [u32; 8],
    pub m: [u32; 16],
    pub t: u64,
    pub b: u32,
    pub d: u32,
}

impl Node {
    pub fn cv(&self) -> [u32; 8] {
        let o = compress(&self.h, &self.m, self.t, self.b, self.d);
        let mut cv = [0u32; 8];
        cv.copy_from_slice(&o[..8]);
        cv
    }
    pub fn cv_bytes(&self) -> [u8; 32] {
        let mut out = [0u8; 32];
        out.copy_from_slice(&cv_bytes(&self.cv()));
        out
    }
    /// k-th 64-byte block of the output stream when this node is the root.
    pub fn root_block(&self, k: u64) -> [u8; 64] {
        let o = compress(&self.h, &self.m, k, self.b, self.d | F_ROOT);
        let mut out = [0u8; 64];
        out.copy_from_slice(&cv_bytes(&o));
        out
    }
    /// S[pos .. pos+n] of the output stream (pos + n <= 2^64 - 1 expected).
    pub fn stream(&self, pos: u64, n: usize) -> Vec<u8> {
        let mut out = Vec::with_capacity(n);
        let mut p = pos as u128;
        let end = pos as u128 + n as u128;
        while p < end {
            let k = (p / 64) as u64;
            let off = (p % 64) as usize;
            let blk = self.root_block(k);
            let take = core::cmp::min(64 - off, (end - p) as usize);
            out.extend_from_slice(&blk[off..off + take]);
            p += take as u128;
        }
        out
    }
    pub fn root_hash(&self) -> [u8; 32] {
        let mut out = [0u8; 32];
        out.copy_from_slice(&self.root_block(0)[..32]);
        out
    }
}

/// The node of one chunk (<= 1024 bytes; may be empty only for the empty input).
pub fn chunk_node(key: &[u32; 8], mode_flags: u32, chunk: &[u8], chunk_counter: u64) -> Node {
    assert!(chunk.len() <= 1024);
    let nblocks = core::cmp::max(1, (chunk.len() + 63) / 64);
    let mut h = *key;
    for i in 0..nblocks {
        let lo = i * 64;
        let hi = core::cmp::min(chunk.len(), lo + 64);
        let bytes = &chunk[lo..hi];
        let mut d = mode_flags;
        if i == 0 {
            d |= F_CHUNK_START;
        }
        if i == nblocks - 1 {
            d |= F_CHUNK_END;
            return Node { h, m: words_of_block(bytes), t: chunk_counter, b: bytes.len() as u32, d };
        }
        let o = compress(&h, &words_of_block(bytes), chunk_counter, 64, d);
        h.copy_from_slice(&o[..8]);
    }
    unreachable!()
}

pub fn parent_node(key: &[u32; 8], mode_flags: u32, left: &[u32; 8], right: &[u32; 8]) -> Node {
    let mut m = [0u32; 16];
    m[..8].copy_from_slice(left);
    m[8..].copy_from_slice(right);
    Node { h: *key, m, t: 0, b: 64, d: mode_flags | F_PARENT }
}

/// Largest power of two strictly less than n (n >= 2).
pub fn largest_pow2_below(n: u64) -> u64 {
    assert!(n >= 2);
    let mut p = 1u64;
    while p <= (n - 1) / 2 {
        p *= 2;
    }
    // now p <= n-1 and 2p > n-1  => p is the largest power of two <= n-1
    p
}

/// The node of a subtree covering `bytes`, whose first chunk has index `chunk_counter`.
pub fn subtree_node(key: &[u32; 8], mode_flags: u32, bytes: &[u8], chunk_counter: u64) -> Node {
    if bytes.len() <= 1024 {
        return chunk_node(key, mode_flags, bytes, chunk_counter);
    }
    let nchunks = ((bytes.len() + 1023) / 1024) as u64;
    let left_chunks = largest_pow2_below(nchunks);
    let split = (left_chunks * 1024) as usize;
    let l = subtree_node(key, mode_flags, &bytes[..split], chunk_counter).cv();
    let r = subtree_node(key, mode_flags, &bytes[split..], chunk_counter + left_chunks).cv();
    parent_node(key, mode_flags, &l, &r)
}

#[derive(Clone, Debug, PartialEq, Eq)]
pub enum MMode {
    Hash,
    Keyed([u8; 32]),
    /// derive_key with a context string (bytes of the string)
    Derive(Vec<u8>),
    /// derive_key with the context key already computed
    ContextKey([u8; 32]),
}

pub fn context_key(context: &[u8]) -> [u8; 32] {
    subtree_node(&IV, F_DERIVE_KEY_CONTEXT, context, 0).root_hash()
}

impl MMode {
    pub fn key_flags(&self) -> ([u32; 8], u32) {
        match self {
            MMode::Hash => (IV, 0),
            MMode::Keyed(k) => (key_words(k), F_KEYED_HASH),
            MMode::Derive(ctx) => (key_words(&context_key(ctx)), F_DERIVE_KEY_MATERIAL),
            MMode::ContextKey(k) => (key_words(k), F_DERIVE_KEY_MATERIAL),
        }
    }
    /// Root node for the whole input.
    pub fn root(&self, input: &[u8]) -> Node {
        let (k, f) = self.key_flags();
        subtree_node(&k, f, input, 0)
    }
    /// Non-root chaining value of a subtree at a chunk-aligned byte offset.
    pub fn subtree_cv(&self, bytes: &[u8], offset: u64) -> [u8; 32] {
        assert!(offset % 1024 == 0);
        let (k, f) = self.key_flags();
        subtree_node(&k, f, bytes, offset / 1024).cv_bytes()
    }
}

pub fn hex(b: &[u8]) -> String {
    let mut s = String::with_capacity(b.len() * 2);
    for x in b {
        s.push_str(&format!("{:02x}", x));
    }
    s
}

pub fn unhex(s: &str) -> Vec<u8> {
    let b = s.as_bytes();
    let v = |c: u8| -> u8 {
        match c {
            b'0'..=b'9' => c - b'0',
            b'a'..=b'f' => c - b'a' + 10,
            b'A'..=b'F' => c - b'A' + 10,
            _ => panic!("bad hex"),
        }
    };
    (0..b.len() / 2).map(|i| v(b[2 * i]) * 16 + v(b[2 * i + 1])).collect()
}

/// Self-test against frozen constants. Returns Err(description) on failure.
pub fn selftest(vectors_json: &str) -> Result<usize, String> {
    // The two digests every BLAKE3 user knows.
    let empty = MMode::Hash.root(b"").root_hash();
    if hex(&empty) != "af1349b9f5f9a1a6a0404dea36dcc9499bcb25c9adc112b7cc9a93cae41f3262" {
        return Err("hash(\"\") mismatch".into());
    }
    let abc = MMode::Hash.root(b"abc").root_hash();
    if hex(&abc) != "6437b3ac38465133ffb63b75273a8db548c558465d79db03fd359c6cd5bd9d85" {
        return Err("hash(\"abc\") mismatch".into());
    }
    let v: serde_json::Value = serde_json::from_str(vectors_json).map_err(|e| e.to_string())?;
    let key = v["key"].as_str().ok_or("no key")?.as_bytes();
    let mut k32 = [0u8; 32];
    k32.copy_from_slice(key);
    let ctx = v["context_string"].as_str().ok_or("no ctx")?.as_bytes().to_vec();
    let mut n = 0;
    for case in v["cases"].as_array().ok_or("no cases")? {
        let len = case["input_len"].as_u64().unwrap() as usize;
        let input: Vec<u8> = (0..len).map(|i| (i % 251) as u8).collect();
        for (field, mode) in [
            ("hash", MMode::Hash),
            ("keyed_hash", MMode::Keyed(k32)),
            ("derive_key", MMode::Derive(ctx.clone())),
        ] {
            let want = unhex(case[field].as_str().unwrap());
            let got = mode.root(&input).stream(0, want.len());
            if got != want {
                return Err(format!("vector mismatch len={} field={}", len, field));
            }
            n += 1;
        }
    }
    // largest_pow2_below sanity
    for (n_, want) in [(2u64, 1u64), (3, 2), (4, 2), (5, 4), (8, 4), (9, 8), (u64::MAX, 1 << 63)] {
        if largest_pow2_below(n_) != want {
            return Err(format!("largest_pow2_below({})", n_));
        }
    }
    Ok(n)
}
