//! Seeded search: many short diverse runs on all cores, shrinking, replay
//! files, evidence.

use crate::exec::{self, ExecOut};
use crate::gen::GenCtx;
use crate::plan::*;
use crate::rng::Fnv;
use crate::shrink;
use serde_json::json;
use std::collections::{BTreeMap, BTreeSet};
use std::sync::atomic::{AtomicBool, AtomicU64, Ordering};
use std::sync::Mutex;
use std::time::{Duration, Instant};

pub const WORKER_STACK: usize = 64 << 20;

/// Plans are generated against the full level list so that a seed means the same plan in every build
/// flavour; a level the build cannot run falls back to real detection at exec time.
pub const GEN_LEVELS: [Level; 5] = [Level::Portable, Level::SSE2, Level::SSE41, Level::AVX2, Level::AVX512];

pub fn verif_dir() -> std::path::PathBuf {
    std::env::var_os("VERIF_DIR").map(Into::into).unwrap_or_else(|| "/verif".into())
}

pub fn flavour() -> &'static str {
    if !cfg!(feature = "full") {
        "lean"
    } else if cfg!(feature = "pure") {
        "pure"
    } else if cfg!(feature = "prefer_intrinsics") {
        "prefer_intrinsics"
    } else {
        "default-asm"
    }
}

pub type GenFn = fn(u64, u64, &GenCtx) -> Plan;

/// How a family's runs are judged.
#[derive(Clone, Copy, PartialEq)]
pub enum Judge {
    /// oracle checks inside exec
    Exec,
    /// additionally: the same plan under every available level must give identical per-op digests
    CompareLevels,
    /// the same plan with swapped secrets must give identical Debug text and wiped memory (C17)
    SelfCompose,
    /// each task's results must equal its results when run alone (C18)
    Solo,
    /// the tasks run on real threads released together in a FRESH process, so that their first calls are
    /// the process's first calls (CPU feature detection itself races); results must equal the solo results
    FirstUse,
}

#[derive(Clone)]
pub struct Family {
    pub name: &'static str,
    pub gen: GenFn,
    pub quick: u64,
    pub thorough: u64,
    pub judge: Judge,
}

#[derive(Default, serde::Serialize, serde::Deserialize)]
pub struct Agg {
    pub runs: u64,
    pub ops: u64,
    pub skipped: u64,
    pub bytes: u64,
    pub yields: u64,
    pub switches: u64,
    pub multi_task_runs: u64,
    pub max_live: usize,
    pub faults: BTreeMap<String, u64>,
    pub probes: BTreeMap<String, u64>,
    pub shapes: BTreeSet<u64>,
    pub sigs: BTreeSet<u64>,
    pub sites: [u64; 24],
    pub per_family: BTreeMap<String, u64>,
    pub fault_free_runs: u64,
    pub fault_runs: u64,
}

impl Agg {
    pub fn add(&mut self, fam: &str, out: &ExecOut, ntasks: usize) {
        self.runs += 1;
        *self.per_family.entry(fam.to_string()).or_insert(0) += 1;
        self.ops += out.stats.ops;
        self.skipped += out.stats.skipped;
        self.bytes += out.stats.bytes;
        self.yields += out.sched.yields;
        self.switches += out.sched.switches;
        if ntasks > 1 || out.sched.tasks_total > 1 {
            self.multi_task_runs += 1;
            self.sigs.insert(out.sched.sig);
        }
        self.max_live = self.max_live.max(out.sched.max_live);
        for (k, v) in &out.stats.faults {
            *self.faults.entry(k.to_string()).or_insert(0) += v;
        }
        if out.stats.faults.is_empty() {
            self.fault_free_runs += 1;
        } else {
            self.fault_runs += 1;
        }
        for (k, v) in &out.stats.probes {
            *self.probes.entry(k.to_string()).or_insert(0) += v;
        }
        self.shapes.extend(out.stats.shapes.iter().copied());
        for i in 0..24 {
            self.sites[i] += out.sched.site_counts[i];
        }
    }
    pub fn merge(&mut self, o: Agg) {
        self.runs += o.runs;
        self.ops += o.ops;
        self.skipped += o.skipped;
        self.bytes += o.bytes;
        self.yields += o.yields;
        self.switches += o.switches;
        self.multi_task_runs += o.multi_task_runs;
        self.max_live = self.max_live.max(o.max_live);
        self.fault_free_runs += o.fault_free_runs;
        self.fault_runs += o.fault_runs;
        for (k, v) in o.faults {
            *self.faults.entry(k).or_insert(0) += v;
        }
        for (k, v) in o.probes {
            *self.probes.entry(k).or_insert(0) += v;
        }
        for (k, v) in o.per_family {
            *self.per_family.entry(k).or_insert(0) += v;
        }
        self.shapes.extend(o.shapes);
        self.sigs.extend(o.sigs);
        for i in 0..24 {
            self.sites[i] += o.sites[i];
        }
    }
}

#[derive(serde::Serialize, serde::Deserialize)]
pub struct Found {
    pub fam: usize,
    pub i: u64,
    pub plan: Plan,
    pub violation: Violation,
    pub recorded: Vec<u8>,
    pub levels: Vec<Level>,
}

/// Execute one plan as its family's judge demands. Returns (primary ExecOut, violation, levels)
pub fn judge_plan(plan: &Plan, judge: Judge, avail: &[Level]) -> (ExecOut, Option<Violation>, Vec<Level>) {
    let out = exec::exec(plan);
    if out.violation.is_some() || out.harness_error.is_some() {
        let v = out.violation.clone();
        return (out, v, vec![]);
    }
    match judge {
        Judge::Exec => (out, None, vec![]),
        Judge::CompareLevels => {
            // re-execute with every task forced to each level; digests must not depend on it
            let base_level = Level::Portable;
            let mut p0 = plan.clone();
            for t in p0.tasks.iter_mut() {
                t.level = base_level;
            }
            let o0 = exec::exec(&p0);
            if let Some(v) = o0.violation.clone() {
                return (o0, Some(v), vec![base_level]);
            }
            for &l in avail.iter().chain([Level::Detect].iter()) {
                if l == base_level {
                    continue;
                }
                let mut p = plan.clone();
                for t in p.tasks.iter_mut() {
                    t.level = l;
                }
                let o = exec::exec(&p);
                if let Some(mut v) = o.violation.clone() {
                    v.detail = format!("[level {:?}] {}", l, v.detail);
                    return (o, Some(v), vec![l]);
                }
                if o.harness_error.is_some() {
                    return (o, None, vec![]);
                }
                if o.op_digests != o0.op_digests {
                    let (mut ti, mut oi) = (0, 0);
                    'f: for (a, (x, y)) in o.op_digests.iter().zip(o0.op_digests.iter()).enumerate() {
                        for (b, (p, q)) in x.iter().zip(y.iter()).enumerate() {
                            if p != q {
                                ti = a;
                                oi = b;
                                break 'f;
                            }
                        }
                    }
                    let v = Violation {
                        property: plan.prop.clone(),
                        class: "config-divergence".into(),
                        task: ti,
                        op: oi,
                        op_kind: plan.tasks[ti].ops[oi].kind().into(),
                        detail: format!("results under {:?} differ from {:?}", l, base_level),
                    };
                    return (o, Some(v), vec![base_level, l]);
                }
            }
            (out, None, vec![])
        }
        Judge::SelfCompose => crate::judges::self_compose(plan, out),
        Judge::Solo => crate::judges::solo(plan, out),
        Judge::FirstUse => crate::judges::first_use(plan, out),
    }
}

#[derive(serde::Serialize, serde::Deserialize)]
pub struct ShardResult {
    /// (run index, digest of all per-operation results) for the first runs: compared across build flavours
    #[serde(default)]
    pub digests: Vec<(u64, u64)>,
    pub agg: Agg,
    pub found: Option<Found>,
    pub harness: Option<String>,
    pub samples: Vec<serde_json::Value>,
}

/// One shard: runs i = shard, shard+of, ... < count sequentially in this process.
pub fn run_shard(spec: &CheckSpec, fam_name: &str, tier: &str, seed: u64, shard: u64, of: u64, count: u64, stopfile: &str) -> i32 {
    let avail = exec::available_levels();
    let gctx = GenCtx { tier_thorough: tier == "thorough", avail: &GEN_LEVELS };
    let Some(fam) = spec.families.iter().find(|f| f.name == fam_name) else { return 2 };
    // a shard must not outlive the coordinating process (a killed check would leave spinning orphans behind)
    unsafe {
        libc::prctl(libc::PR_SET_PDEATHSIG, libc::SIGKILL);
    }
    crate::guard::install_fatal_handlers(Some(&format!("{stopfile}.crash.{shard}")));
    crate::guard::start_watchdog(if tier == "thorough" { 600 } else { 240 });
    let mut res = ShardResult { digests: vec![], agg: Agg::default(), found: None, harness: None, samples: vec![] };
    let fam2 = fam.clone();
    // big stack: copy_wide has a 64 KiB frame and single-task plans run on this thread
    let handle = std::thread::Builder::new()
        .stack_size(WORKER_STACK)
        .spawn({
            let stopfile = stopfile.to_string();
            let avail = avail.clone();
            move || {
                let gctx = GenCtx { tier_thorough: gctx.tier_thorough, avail: &GEN_LEVELS };
                let mut i = shard;
                let mut k = 0u64;
                while i < count {
                    if k % 32 == 0 && std::path::Path::new(&stopfile).exists() {
                        break;
                    }
                    k += 1;
                    crate::guard::CUR_RUN.store(i, Ordering::Relaxed);
                    let plan = (fam2.gen)(seed, i, &gctx);
                    let (out, v, levels) = judge_plan(&plan, fam2.judge, &avail);
                    if let Some(h) = &out.harness_error {
                        res.harness = Some(format!("family {} run {}: {}", fam2.name, i, h));
                        break;
                    }
                    res.agg.add(fam2.name, &out, plan.tasks.len());
                    if i < 6000 {
                        let mut f = Fnv::default();
                        for t in &out.op_digests {
                            for d in t {
                                f.u64(*d);
                            }
                        }
                        res.digests.push((i, f.0));
                    }
                    if i < 2 {
                        res.samples.push(json!({"run": i, "plan": plan_summary(&plan), "trace_digest": format!("{:016x}", out.trace_digest())}));
                    }
                    if let Some(v) = v {
                        res.found = Some(Found { fam: 0, i, plan, violation: v, recorded: out.sched.choices.clone(), levels });
                        break;
                    }
                    i += of;
                }
                res
            }
        })
        .expect("spawn shard thread");
    match handle.join() {
        Ok(res) => {
            println!("{}", serde_json::to_string(&res).unwrap());
            0
        }
        Err(_) => 2,
    }
}

pub struct CheckSpec {
    pub prop: &'static str,
    pub level: &'static str,
    pub rule: &'static str,
    pub families: Vec<Family>,
    pub real: Vec<&'static str>,
    pub stubs: Vec<&'static str>,
    pub assumptions: Vec<&'static str>,
}

pub struct RunCfg {
    /// write a part file (evidence/.parts/<prop>.<part>.json) instead of the final evidence
    pub part: Option<String>,
    pub tier: String,
    pub seed: u64,
    pub jobs: usize,
    pub scale: f64,
    pub only_family: Option<String>,
}

fn plan_summary(p: &Plan) -> serde_json::Value {
    let ops: Vec<String> = p
        .tasks
        .iter()
        .map(|t| {
            let s: Vec<String> = t
                .ops
                .iter()
                .map(|o| {
                    let mut s = serde_json::to_string(o).unwrap_or_default();
                    if s.len() > 160 {
                        s.truncate(160);
                        s.push_str("...");
                    }
                    s
                })
                .collect();
            format!("[{:?}] {}", t.level, s.join(" ; "))
        })
        .collect();
    json!({"family": p.family, "seed": p.seed, "data_lens": p.data.iter().map(|d| d.len()).collect::<Vec<_>>(), "tasks": ops, "schedule": match &p.schedule { Schedule::Gen{kind,..} => format!("{:?}", kind), Schedule::Explicit{choices} => format!("explicit[{}]", choices.len()) }})
}

pub fn run_check(spec: &CheckSpec, cfg: &RunCfg) -> i32 {
    let t0 = Instant::now();
    let avail = exec::available_levels();
    let thorough = cfg.tier == "thorough";
    let gctx = GenCtx { tier_thorough: thorough, avail: &GEN_LEVELS };
    let stop = AtomicBool::new(false);
    let found: Mutex<Vec<Found>> = Mutex::new(Vec::new());
    let harness: Mutex<Option<String>> = Mutex::new(None);
    let total = Mutex::new(Agg::default());
    let samples: Mutex<Vec<serde_json::Value>> = Mutex::new(Vec::new());
    let run_digests: Mutex<BTreeMap<String, BTreeMap<u64, u64>>> = Mutex::new(BTreeMap::new());
    println!(
        "b3sim: property={} tier={} VERIF_SEED={} jobs={} flavour={} levels={:?}",
        spec.prop, cfg.tier, cfg.seed, cfg.jobs, flavour(), avail
    );
    for (fi, fam) in spec.families.iter().enumerate() {
        if let Some(of) = &cfg.only_family {
            if of != fam.name {
                continue;
            }
        }
        let n = ((if thorough { fam.thorough } else { fam.quick }) as f64 * cfg.scale).ceil() as u64;
        let ft0 = Instant::now();
        // One OS process per shard: inside a process exactly one simulation runs at a time, so a
        // run stays an exact function of its plan even if the library under test grows global state.
        let stopfile = std::env::temp_dir().join(format!("b3sim.stop.{}.{}", std::process::id(), fi));
        let _ = std::fs::remove_file(&stopfile);
        let mut children = Vec::new();
        for k in 0..cfg.jobs {
            let child = std::process::Command::new(std::env::current_exe().unwrap())
                .args(["shard", "--prop", spec.prop, "--tier", &cfg.tier, "--seed", &cfg.seed.to_string(), "--family", fam.name])
                .args(["--shard", &k.to_string(), "--of", &cfg.jobs.to_string(), "--count", &n.to_string()])
                .arg("--stopfile")
                .arg(&stopfile)
                .stdout(std::process::Stdio::piped())
                .spawn()
                .expect("spawn shard");
            children.push(child);
        }
        let mut done_runs = 0;
        // read results as shards finish (each prints one JSON line at exit)
        let mut readers = Vec::new();
        for mut c in children {
            let out = c.stdout.take().unwrap();
            let sf = stopfile.clone();
            readers.push(std::thread::spawn(move || {
                use std::io::Read;
                let mut buf = String::new();
                let mut out = out;
                let _ = out.read_to_string(&mut buf);
                let st = c.wait();
                let res: Option<ShardResult> = buf.lines().last().and_then(|l| serde_json::from_str(l).ok());
                if let Some(r) = &res {
                    if r.found.is_some() || r.harness.is_some() {
                        let _ = std::fs::write(&sf, b"stop");
                    }
                } else {
                    let _ = std::fs::write(&sf, b"stop");
                }
                (res, st.ok().and_then(|s| s.code()))
            }));
        }
        for r in readers {
            match r.join().expect("reader thread") {
                (Some(res), _) => {
                    done_runs += res.agg.runs;
                    total.lock().unwrap().merge(res.agg);
                    samples.lock().unwrap().extend(res.samples);
                    // only C04 states that results are the same in every build flavour (in C07, for one, the
                    // set of kernels that exist differs between flavours)
                    if spec.prop == "C04" {
                        run_digests.lock().unwrap().entry(fam.name.to_string()).or_default().extend(res.digests.iter().copied());
                    }
                    if let Some(h) = res.harness {
                        *harness.lock().unwrap() = Some(h);
                    }
                    if let Some(mut f) = res.found {
                        f.fam = fi;
                        found.lock().unwrap().push(f);
                    }
                }
                (None, Some(code)) if code == crate::guard::EXIT_MEMFAULT || code == crate::guard::EXIT_HANG => {
                    // native code faulted: the shard's signal handler left a crash record
                    let mut rec = String::new();
                    for k in 0..cfg.jobs {
                        if let Ok(t) = std::fs::read_to_string(format!("{}.crash.{}", stopfile.display(), k)) {
                            if t.contains("MEMFAULT") || t.contains("HANG") {
                                rec = t;
                                break;
                            }
                        }
                    }
                    let num = |key: &str| -> u64 { rec.split(key).nth(1).and_then(|x| x.split_whitespace().next()).and_then(|x| x.parse().ok()).unwrap_or(0) };
                    let i = num(" run=");
                    let plan = (fam.gen)(cfg.seed, i, &gctx);
                    let (ti, oi) = (num(" task=") as usize, num(" op=") as usize);
                    let kind = plan.tasks.get(ti).and_then(|t| t.ops.get(oi)).map_or("", |o| o.kind()).to_string();
                    let class = if code == crate::guard::EXIT_HANG { "hang" } else { "memory-fault" };
                    let v = Violation { property: spec.prop.into(), class: class.into(), task: ti, op: oi, op_kind: kind, detail: rec.trim().to_string() };
                    found.lock().unwrap().push(Found { fam: fi, i, plan, violation: v, recorded: vec![], levels: vec![] });
                }
                (None, code) => {
                    *harness.lock().unwrap() = Some(format!("shard of family {} died without a result (exit {:?})", fam.name, code));
                }
            }
        }
        let _ = std::fs::remove_file(&stopfile);
        for k in 0..cfg.jobs {
            let _ = std::fs::remove_file(format!("{}.crash.{}", stopfile.display(), k));
        }
        println!("  family {:<16} runs={:<9} {:.1}s", fam.name, done_runs, ft0.elapsed().as_secs_f64());
        if !found.lock().unwrap().is_empty() || harness.lock().unwrap().is_some() {
            stop.store(true, Ordering::Relaxed);
            break;
        }
    }
    if let Some(h) = harness.lock().unwrap().clone() {
        eprintln!("HARNESS ERROR: {h}");
        return 2;
    }
    let mut found = found.into_inner().unwrap();
    found.sort_by_key(|f| (f.fam, f.i));
    let agg = total.into_inner().unwrap();
    let mut violations = 0;
    let mut exit = 0;
    let mut known_lines = Vec::new();
    // listed known findings with a demonstration: still there? (run without the call-site slack)
    for (what, rp) in crate::known::demonstrations(spec.prop) {
        let path = verif_dir().join(&rp);
        let st = std::process::Command::new(std::env::current_exe().unwrap()).arg("replay").arg(&path).arg("--quiet").env("B3SIM_NO_KNOWN_SLACK", "1").stderr(std::process::Stdio::null()).status();
        if matches!(st, Ok(s) if s.code() == Some(1)) {
            known_lines.push(format!("KNOWN-FINDING: property={} {} (replay: {})", spec.prop, what, rp));
        }
    }
    if let Some(f) = found.into_iter().next() {
        let fam = &spec.families[f.fam];
        println!("violation candidate: family={} run={} class={} op={}#{} :: {}", fam.name, f.i, f.violation.class, f.violation.op_kind, f.violation.op, f.violation.detail);
        let class = f.violation.class.clone();
        let judge = fam.judge;
        let avail2 = avail.clone();
        let engine = match judge {
            Judge::Exec => "exec",
            Judge::CompareLevels => "compare-levels",
            Judge::SelfCompose => "self-compose",
            Judge::Solo => "solo",
            Judge::FirstUse => "first-use",
        };
        let dir = verif_dir().join("replays");
        let _ = std::fs::create_dir_all(&dir);
        let tmp_path = dir.join(format!(".tmp-{}-{}-{}.json", spec.prop, fam.name, f.i));
        // does a replay file reproduce in a FRESH process?
        let fresh = |rf: &ReplayFile| -> bool {
            // replay() itself repeats plans that involve a real rayon pool (schedules there are not ours)
            std::fs::write(&tmp_path, serde_json::to_string(rf).unwrap()).expect("write tmp replay");
            let st = std::process::Command::new(std::env::current_exe().unwrap()).arg("replay").arg(&tmp_path).arg("--quiet").stderr(std::process::Stdio::null()).status();
            matches!(st, Ok(s) if s.code() == Some(1))
        };
        // plans with guard-placed buffers are always judged in child processes: a violation there may well
        // end in a fatal signal, which must not take the coordinating process down
        let is_memfault = f.violation.class == "memory-fault" || f.violation.class == "hang" || f.plan.cfg.guard_alloc;
        let mk = |plan: &Plan, v: &Violation, prelude: Vec<Plan>, levels: Vec<Level>, trace: u64| ReplayFile {
            property: spec.prop.to_string(),
            engine: engine.to_string(),
            flavour: flavour().to_string(),
            plan: plan.clone(),
            violation: v.clone(),
            trace_digest: format!("{:016x}", trace),
            levels,
            prelude,
        };
        // 1. the failing plan alone, in a fresh process
        let mut prelude: Vec<Plan> = Vec::new();
        let alone = mk(&f.plan, &f.violation, vec![], f.levels.clone(), 0);
        let (small, v, out_trace, levels);
        let real_pool = f.plan.tasks.iter().flat_map(|t| t.ops.iter()).any(|o| matches!(o, Op::ParallelRayon { .. } | Op::Absorb { via: AbsorbVia::Rayon { .. } | AbsorbVia::MmapRayon, .. }));
        let real_pool = real_pool || judge == Judge::FirstUse; // real threads there too: not the simulator's schedule
        let mut verified_on_real_threads = false;
        if real_pool && fresh(&alone) {
            verified_on_real_threads = true;
            // a violation observed on a real rayon pool: its schedule is not ours, so the plan is reported as
            // found (no shrinking: every candidate would need many attempts); the replay repeats the run
            println!("  violation observed on real threads (rayon pool / first-use tier): reported unshrunk; the replay repeats the run until it shows");
            small = f.plan.clone();
            v = f.violation.clone();
            out_trace = 0;
            levels = f.levels.clone();
        } else if fresh(&alone) {
            let fv = f.violation.clone();
            crate::exec::SOFT_TIMEOUT.store(true, Ordering::Relaxed);
            crate::sched::WAIT_LIMIT_S.store(20, Ordering::Relaxed);
            let mut test = |p: &Plan| -> Option<Violation> {
                if is_memfault || crate::exec::ABANDONED.load(Ordering::Relaxed) {
                    // the process dies with the fault: every candidate runs in its own process
                    return if fresh(&mk(p, &fv, vec![], vec![], 0)) { Some(fv.clone()) } else { None };
                }
                let (out, v, _) = judge_plan(p, judge, &avail2);
                if out.harness_error.is_some() {
                    return None;
                }
                v
            };
            let (mut sm, v0) = shrink::shrink(&f.plan, &f.recorded, &class, &mut test, Duration::from_secs(if thorough { 60 } else { 30 }));
            crate::sched::WAIT_LIMIT_S.store(900, Ordering::Relaxed);
            crate::exec::SOFT_TIMEOUT.store(false, Ordering::Relaxed);
            if is_memfault || crate::exec::ABANDONED.load(Ordering::Relaxed) {
                small = sm;
                v = v0;
                out_trace = 0;
                levels = vec![];
            } else {
                let (out, v2, lv) = judge_plan(&sm, judge, &avail);
                if matches!(sm.schedule, Schedule::Gen { .. }) {
                    sm.schedule = Schedule::Explicit { choices: out.sched.choices.clone() };
                }
                small = sm;
                v = v2.unwrap_or(v0);
                out_trace = out.trace_digest();
                levels = lv;
            }
        } else {
            // 2. the violation depends on what the process did before (state the library keeps across
            // calls): replay the shard's earlier runs as a prelude, then minimise the prelude.
            let of = cfg.jobs as u64;
            let gctx2 = GenCtx { tier_thorough: thorough, avail: &GEN_LEVELS };
            let mut idx = f.i % of;
            while idx < f.i {
                prelude.push((fam.gen)(cfg.seed, idx, &gctx2));
                idx += of;
            }
            let full = mk(&f.plan, &f.violation, prelude.clone(), f.levels.clone(), 0);
            if !fresh(&full) {
                let _ = std::fs::remove_file(&tmp_path);
                eprintln!("HARNESS ERROR: violation candidate (family {} run {}) reproduces neither alone nor after its shard's history in a fresh process", fam.name, f.i);
                return 2;
            }
            println!("  violation depends on process history: reproduced with a prelude of {} earlier runs; minimising", prelude.len());
            // drop from the front while it still reproduces (halving, then one by one)
            let t_min = Instant::now();
            let mut step = (prelude.len() / 2).max(1);
            while step >= 1 && !prelude.is_empty() && t_min.elapsed() < Duration::from_secs(60) {
                if step <= prelude.len() {
                    let cand: Vec<Plan> = prelude[step..].to_vec();
                    if fresh(&mk(&f.plan, &f.violation, cand.clone(), f.levels.clone(), 0)) {
                        prelude = cand;
                        continue;
                    }
                }
                if step == 1 {
                    break;
                }
                step /= 2;
            }
            // drop single runs anywhere
            let mut k = 0;
            while k < prelude.len() && t_min.elapsed() < Duration::from_secs(90) {
                let mut cand = prelude.clone();
                cand.remove(k);
                if fresh(&mk(&f.plan, &f.violation, cand.clone(), f.levels.clone(), 0)) {
                    prelude = cand;
                } else {
                    k += 1;
                }
            }
            let mut sm = f.plan.clone();
            sm.schedule = Schedule::Explicit { choices: f.recorded.clone() };
            if !fresh(&mk(&sm, &f.violation, prelude.clone(), f.levels.clone(), 0)) {
                sm = f.plan.clone();
            }
            // shrink the failing plan itself with the prelude fixed (every candidate in its own fresh process)
            {
                let fv = f.violation.clone();
                let pre = prelude.clone();
                let mut test = |p: &Plan| -> Option<Violation> {
                    if fresh(&mk(p, &fv, pre.clone(), vec![], 0)) {
                        Some(fv.clone())
                    } else {
                        None
                    }
                };
                let rec: Vec<u8> = match &sm.schedule {
                    Schedule::Explicit { choices } => choices.clone(),
                    _ => f.recorded.clone(),
                };
                let (s2, _) = shrink::shrink(&sm, &rec, &class, &mut test, Duration::from_secs(45));
                sm = s2;
            }
            small = sm;
            v = f.violation.clone();
            out_trace = 0;
            levels = f.levels.clone();
        }
        let _ = std::fs::remove_file(&tmp_path);
        let rf = mk(&small, &v, prelude, levels, out_trace);
        let path = dir.join(format!("{}-{}-{}.json", spec.prop, fam.name, f.i));
        std::fs::write(&path, serde_json::to_string_pretty(&rf).unwrap()).expect("write replay");
        // must reproduce in a fresh process (for violations observed on real threads that has just been
        // confirmed above with this very plan; their replays are expected, not guaranteed, to show it again)
        let st = if verified_on_real_threads {
            std::process::Command::new("sh").arg("-c").arg("exit 1").status()
        } else {
            std::process::Command::new(std::env::current_exe().unwrap()).arg("replay").arg(&path).arg("--quiet").status()
        };
        match st {
            Ok(s) if s.code() == Some(1) => {
                if let Some(k) = crate::known::matches(&rf) {
                    known_lines.push(format!("KNOWN-FINDING: property={} {}", spec.prop, k));
                } else {
                    println!("  shrunk: class={} op={}#{} task={} :: {}", v.class, v.op_kind, v.op, v.task, v.detail);
                    println!("VIOLATION property={} replay={}", spec.prop, path.display());
                    violations = 1;
                    exit = 1;
                }
            }
            other => {
                // The shrinker runs in this (long-lived) process: a candidate may have "reproduced" here only because
                // of what earlier candidates left behind in the library. The plan as found did reproduce in a fresh
                // process (with its prelude, if any): report that one, unshrunk.
                let rf0 = mk(&f.plan, &f.violation, rf.prelude.clone(), f.levels.clone(), 0);
                std::fs::write(&path, serde_json::to_string_pretty(&rf0).unwrap()).expect("write replay");
                let st0 = std::process::Command::new(std::env::current_exe().unwrap()).arg("replay").arg(&path).arg("--quiet").status();
                if matches!(st0, Ok(s) if s.code() == Some(1)) {
                    if let Some(k) = crate::known::matches(&rf0) {
                        known_lines.push(format!("KNOWN-FINDING: property={} {}", spec.prop, k));
                    } else {
                        println!("  (the shrunk plan depended on the shrinking process's own history; reported as found)");
                        println!("  found: class={} op={}#{} task={} :: {}", f.violation.class, f.violation.op_kind, f.violation.op, f.violation.task, f.violation.detail);
                        println!("VIOLATION property={} replay={}", spec.prop, path.display());
                        violations = 1;
                        exit = 1;
                    }
                } else {
                    eprintln!("HARNESS ERROR: shrunk replay {} did not reproduce in a fresh process ({:?})", path.display(), other);
                    return 2;
                }
            }
        }
    }
    for l in &known_lines {
        println!("{l}");
    }
    let wall = t0.elapsed().as_secs_f64();
    let distinct = agg.shapes.len() + agg.sigs.len();
    let ev = json!({
        "property_id": spec.prop,
        "tier": cfg.tier,
        "seed": cfg.seed,
        "level": spec.level,
        "coverage": {
            "evaluations": agg.runs,
            "distinct_nontrivial": distinct,
            "rule": spec.rule,
            "samples": samples.into_inner().unwrap(),
            "distinct_state_shapes": agg.shapes.len(),
            "distinct_schedule_signatures": agg.sigs.len(),
            "runs_per_family": agg.per_family,
            "runs_per_hour": (agg.runs as f64 / wall * 3600.0) as u64,
            "operations_executed": agg.ops,
            "operations_skipped_out_of_domain": agg.skipped,
            "bytes_absorbed": agg.bytes,
            "simulated_time_steps_yields": agg.yields,
            "task_switches": agg.switches,
            "multi_task_runs": agg.multi_task_runs,
            "max_live_tasks": agg.max_live,
            "yield_sites": {"detect": agg.sites[0], "compress_in_place": agg.sites[1], "compress_xof": agg.sites[2], "hash_many": agg.sites[3], "xof_many": agg.sites[4], "reader_call": agg.sites[5], "op_boundary": agg.sites[6], "join_split": agg.sites[7], "c_get_cpu_features_load_store_gap": agg.sites[16], "c_compress_in_place": agg.sites[17], "c_compress_xof": agg.sites[18], "c_hash_many": agg.sites[19], "c_xof_many": agg.sites[20]},
            "faults_fired": agg.faults,
            "fault_free_runs": agg.fault_free_runs,
            "fault_injecting_runs": agg.fault_runs,
            "probes": agg.probes,
            "configs": {"flavour": flavour(), "levels": format!("{:?}", avail)},
            "real_components": spec.real,
            "stub_components": spec.stubs,
            "known_findings": known_lines,
        },
        "assumptions": spec.assumptions,
        "wall_s": wall,
        "violations": violations,
    });
    let evdir = verif_dir().join("evidence");
    let _ = std::fs::create_dir_all(&evdir);
    if let Some(part) = &cfg.part {
        let pdir = evdir.join(".parts");
        let _ = std::fs::create_dir_all(&pdir);
        let partv = json!({
            "part": part, "flavour": flavour(), "evidence": ev, "exit": exit,
            "shapes": agg.shapes, "sigs": agg.sigs,
            "run_digests": run_digests.into_inner().unwrap(),
        });
        write_evidence(&pdir.join(format!("{}.{}.json", spec.prop, part)), partv);
        println!("b3sim: part {} of {}: {} runs, {:.1}s, exit {}", part, spec.prop, agg.runs, wall, exit);
        return exit;
    }
    let evp = evdir.join(format!("{}.json", spec.prop));
    // several engines may contribute to one property's evidence: merge under "engines"
    write_evidence(&evp, ev);
    println!(
        "b3sim: {} runs, {} ops, {} yields, {} distinct shapes+schedules, {:.1}s, {}",
        agg.runs,
        agg.ops,
        agg.yields,
        distinct,
        wall,
        if exit == 0 { "property held on everything explored" } else { "VIOLATION" }
    );
    exit
}

pub fn write_evidence(path: &std::path::Path, ev: serde_json::Value) {
    let tmp = path.with_extension("json.tmp");
    std::fs::write(&tmp, serde_json::to_string_pretty(&ev).unwrap()).expect("write evidence");
    std::fs::rename(&tmp, path).expect("rename evidence");
}

pub fn replay(path: &str, quiet: bool) -> i32 {
    let txt = match std::fs::read_to_string(path) {
        Ok(t) => t,
        Err(e) => {
            eprintln!("cannot read {path}: {e}");
            return 2;
        }
    };
    let rf: ReplayFile = match serde_json::from_str(&txt) {
        Ok(r) => r,
        Err(e) => {
            eprintln!("bad replay file: {e}");
            return 2;
        }
    };
    if rf.flavour != flavour() {
        eprintln!("note: replay recorded on flavour {}, this binary is {}", rf.flavour, flavour());
    }
    let judge = match rf.engine.as_str() {
        "exec" => Judge::Exec,
        "compare-levels" => Judge::CompareLevels,
        "self-compose" => Judge::SelfCompose,
        "solo" => Judge::Solo,
        "first-use" => Judge::FirstUse,
        other => {
            eprintln!("unknown engine {other}");
            return 2;
        }
    };
    if (rf.violation.class == "memory-fault" || rf.violation.class == "hang" || rf.plan.cfg.guard_alloc) && std::env::var_os("B3SIM_REPLAY_INNER").is_none() {
        // the replay is expected to die with a fatal signal: run it in a child and report what happened
        let st = std::process::Command::new(std::env::current_exe().unwrap()).arg("replay").arg(path).arg("--quiet").env("B3SIM_REPLAY_INNER", "1").status();
        return match st {
            Ok(s) if s.code() == Some(crate::guard::EXIT_HANG) && rf.violation.class == "hang" => {
                if !quiet {
                    println!("replayed: the recorded operation did not return again");
                    println!("VIOLATION property={} replay={}", rf.property, path);
                }
                1
            }
            Ok(s) if s.code() == Some(crate::guard::EXIT_MEMFAULT) => {
                if !quiet {
                    println!("replayed: native code faulted again (fatal signal while executing the recorded operation)");
                    println!("VIOLATION property={} replay={}", rf.property, path);
                }
                1
            }
            Ok(s) if s.code() == Some(1) => {
                if !quiet {
                    println!("replayed: the recorded memory-safety violation occurred again");
                    println!("VIOLATION property={} replay={}", rf.property, path);
                }
                1
            }
            Ok(s) if s.code() == Some(0) => {
                if !quiet {
                    println!("replay did not reproduce: no fault on this tree");
                }
                0
            }
            other => {
                if !quiet {
                    println!("replay ended unexpectedly: {:?}", other);
                }
                3
            }
        };
    }
    crate::guard::install_fatal_handlers(None);
    if rf.violation.class == "hang" {
        crate::guard::start_watchdog(60);
    }
    let avail = exec::available_levels();
    // history first: runs whose only role is the state they leave behind in the process
    for p in &rf.prelude {
        let _ = judge_plan(p, judge, &avail);
    }
    // operations on a real rayon pool are the one place where the schedule is not the simulator's: such a
    // replay is expected, not guaranteed, to reproduce on the first attempt, so it is repeated
    let real_pool = rf.plan.tasks.iter().flat_map(|t| t.ops.iter()).any(|o| {
        matches!(o, Op::ParallelRayon { .. } | Op::Absorb { via: AbsorbVia::Rayon { .. } | AbsorbVia::MmapRayon, .. })
    });
    let attempts = if real_pool {
        600
    } else if judge == Judge::FirstUse {
        60
    } else {
        1
    };
    let (mut out, mut v, _) = judge_plan(&rf.plan, judge, &avail);
    let mut tries = 1;
    while v.is_none() && out.harness_error.is_none() && tries < attempts {
        let r = judge_plan(&rf.plan, judge, &avail);
        out = r.0;
        v = r.1;
        tries += 1;
    }
    if real_pool && !quiet {
        println!("note: this replay uses a real rayon pool; {} attempt(s) were made", tries);
    }
    if let Some(h) = out.harness_error {
        eprintln!("HARNESS ERROR: {h}");
        return 2;
    }
    let memsafe = |c: &str| matches!(c, "memory-fault" | "canary" | "register-clobber");
    match v {
        Some(v) if v.class == rf.violation.class || (memsafe(&v.class) && memsafe(&rf.violation.class)) => {
            if !quiet {
                println!("replayed: class={} task={} op={}#{} :: {}", v.class, v.task, v.op_kind, v.op, v.detail);
                println!("trace_digest={:016x} (recorded {})", out.trace_digest(), rf.trace_digest);
                println!("VIOLATION property={} replay={}", rf.property, path);
            }
            1
        }
        Some(v) => {
            if !quiet {
                println!("replay produced a different violation class {} (recorded {})", v.class, rf.violation.class);
            }
            3
        }
        None => {
            if !quiet {
                println!("replay did not reproduce: the recorded violation does not occur on this tree");
            }
            0
        }
    }
}

/// determinism self-test: every plan executed twice gives identical trace digests, the recorded
/// schedule replays, and the result does not depend on how many worker processes share the work.
/// Like the search, one process runs one simulation at a time (the C dispatcher state is process-global).
pub fn selftest_determinism(spec_list: &[CheckSpec], seeds: u64, jobs: usize) -> i32 {
    let _ = spec_list;
    let mut children = Vec::new();
    for k in 0..jobs {
        let c = std::process::Command::new(std::env::current_exe().unwrap())
            .args(["selftest", "det-shard", "--shard", &k.to_string(), "--of", &jobs.to_string(), "--seeds", &seeds.to_string()])
            .stdout(std::process::Stdio::piped())
            .spawn()
            .expect("spawn det shard");
        children.push(c);
    }
    let mut lines: Vec<String> = Vec::new();
    let mut bad = 0u64;
    for c in children {
        let out = c.wait_with_output().expect("det shard");
        if out.status.code() != Some(0) {
            bad += 1;
        }
        for l in String::from_utf8_lossy(&out.stdout).lines() {
            if l.starts_with("D ") {
                lines.push(l.to_string());
            } else if l.starts_with("BAD ") {
                eprintln!("{l}");
                bad += 1;
            }
        }
    }
    lines.sort();
    let mut all = Fnv::default();
    for l in &lines {
        all.bytes(l.as_bytes());
    }
    println!("determinism: jobs={} seeds_per_family={} runs={} combined_digest={:016x} mismatches={}", jobs, seeds, lines.len(), all.0, bad);
    if bad == 0 {
        0
    } else {
        2
    }
}

pub fn selftest_det_shard(spec_list: &[CheckSpec], seeds: u64, shard: u64, of: u64) -> i32 {
    let gctx = GenCtx { tier_thorough: false, avail: &GEN_LEVELS };
    let handle = std::thread::Builder::new()
        .stack_size(WORKER_STACK)
        .spawn({
            let fams: Vec<(String, Family)> = spec_list.iter().flat_map(|s| s.families.iter().map(|f| (s.prop.to_string(), f.clone()))).collect();
            move || {
                let mut n = 0u64;
                for (prop, fam) in &fams {
                    // process-level families (real b3sum) are deterministic by construction of their oracles, and slow: skip
                    if prop == "C12" || fam.name == "c13-e2e" || fam.name == "c08-bigmmap" || fam.name == "c18-streams" || fam.name == "c11-bigwrite" || fam.name == "c07-hugeout" || fam.name == "c11-hugefile" || fam.name == "c06-hugein" {
                        continue;
                    }
                    let mut i = shard;
                    while i < seeds {
                        n += 1;
                        let plan = (fam.gen)(7, i, &gctx);
                        let plan2 = (fam.gen)(7, i, &gctx);
                        if plan != plan2 {
                            println!("BAD nondeterministic generator: {} run {}", fam.name, i);
                        }
                        let a = exec::exec(&plan);
                        let b = exec::exec(&plan);
                        if a.trace_digest() != b.trace_digest() || a.sched.choices != b.sched.choices {
                            println!("BAD nondeterministic execution: {} run {}", fam.name, i);
                        }
                        let mut p3 = plan.clone();
                        p3.schedule = Schedule::Explicit { choices: a.sched.choices.clone() };
                        let c = exec::exec(&p3);
                        if c.trace_digest() != a.trace_digest() {
                            println!("BAD recorded schedule does not replay: {} run {}", fam.name, i);
                        }
                        println!("D {} {} {:016x}", fam.name, i, a.trace_digest());
                        i += of;
                    }
                }
                n
            }
        })
        .expect("spawn");
    match handle.join() {
        Ok(_) => 0,
        Err(_) => 2,
    }
}

/// Merge the part files of one property (several build flavours / engines) into the final evidence
/// file, and compare the per-run digests between parts: the same seeded plan must give the same
/// results in every build flavour.
pub fn merge_parts(prop: &str, parts: &[String], seed: u64, tier: &str) -> i32 {
    let evdir = verif_dir().join("evidence");
    let mut loaded: Vec<serde_json::Value> = Vec::new();
    for p in parts {
        let path = evdir.join(".parts").join(format!("{}.{}.json", prop, p));
        match std::fs::read_to_string(&path).ok().and_then(|t| serde_json::from_str::<serde_json::Value>(&t).ok()) {
            Some(v) => loaded.push(v),
            None => {
                eprintln!("HARNESS ERROR: missing part file {}", path.display());
                return 2;
            }
        }
    }
    let mut exit = 0;
    let mut evaluations = 0u64;
    let mut wall = 0.0;
    let mut violations = 0i64;
    let mut shapes: BTreeSet<u64> = BTreeSet::new();
    let mut sigs: BTreeSet<u64> = BTreeSet::new();
    let mut samples = Vec::new();
    let mut per_part = serde_json::Map::new();
    for v in &loaded {
        let e = &v["evidence"];
        evaluations += e["coverage"]["evaluations"].as_u64().unwrap_or(0);
        wall += e["wall_s"].as_f64().unwrap_or(0.0);
        violations += e["violations"].as_i64().unwrap_or(0);
        if v["exit"].as_i64().unwrap_or(0) != 0 {
            exit = 1;
        }
        for x in v["shapes"].as_array().into_iter().flatten() {
            shapes.insert(x.as_u64().unwrap_or(0));
        }
        for x in v["sigs"].as_array().into_iter().flatten() {
            sigs.insert(x.as_u64().unwrap_or(0));
        }
        if let Some(s) = e["coverage"]["samples"].as_array() {
            samples.extend(s.iter().take(2).cloned());
        }
        let mut c = e["coverage"].clone();
        if let Some(o) = c.as_object_mut() {
            o.remove("samples");
        }
        per_part.insert(v["part"].as_str().unwrap_or("?").to_string(), c);
    }
    // cross-flavour comparison of per-run digests
    let mut compared = 0u64;
    let mut mismatch: Option<(String, u64, String, String)> = None;
    if let Some(base) = loaded.first() {
        for other in loaded.iter().skip(1) {
            let (Some(a), Some(b)) = (base["run_digests"].as_object(), other["run_digests"].as_object()) else { continue };
            for (fam, da) in a {
                let Some(db) = b.get(fam) else { continue };
                let (Some(da), Some(db)) = (da.as_object(), db.as_object()) else { continue };
                for (i, x) in da {
                    if let Some(y) = db.get(i) {
                        compared += 1;
                        if x != y && mismatch.is_none() {
                            mismatch = Some((fam.clone(), i.parse().unwrap_or(0), base["part"].as_str().unwrap_or("?").to_string(), other["part"].as_str().unwrap_or("?").to_string()));
                        }
                    }
                }
            }
        }
    }
    if let Some((fam, i, pa, pb)) = &mismatch {
        // the plan is regenerated (generation does not depend on the build flavour)
        if let Some(spec) = crate::checks::spec(prop) {
            if let Some(f) = spec.families.iter().find(|f| f.name == fam) {
                let avail = exec::available_levels();
                let g = GenCtx { tier_thorough: tier == "thorough", avail: &GEN_LEVELS };
                let plan = (f.gen)(seed, *i, &g);
                let rf = ReplayFile {
                    property: prop.to_string(),
                    engine: "compare-flavours".into(),
                    flavour: format!("{pa} vs {pb}"),
                    plan,
                    violation: Violation { property: prop.into(), class: "config-divergence".into(), task: 0, op: 0, op_kind: "".into(), detail: format!("per-operation results of run {i} of family {fam} differ between build flavours {pa} and {pb}") },
                    trace_digest: String::new(),
                    levels: vec![],
                    prelude: vec![],
                };
                let dir = verif_dir().join("replays");
                let _ = std::fs::create_dir_all(&dir);
                let path = dir.join(format!("{}-{}-{}-flavours.json", prop, fam, i));
                std::fs::write(&path, serde_json::to_string_pretty(&rf).unwrap()).expect("write replay");
                println!("VIOLATION property={} replay={}", prop, path.display());
                exit = 1;
                violations += 1;
            }
        }
    }
    let level = loaded.first().map(|v| v["evidence"]["level"].as_str().unwrap_or("exploration").to_string()).unwrap_or_default();
    let rule = loaded.first().map(|v| v["evidence"]["coverage"]["rule"].as_str().unwrap_or("").to_string()).unwrap_or_default();
    let assumptions = loaded.first().map(|v| v["evidence"]["assumptions"].clone()).unwrap_or(json!([]));
    let ev = json!({
        "property_id": prop,
        "tier": tier,
        "seed": seed,
        "level": level,
        "coverage": {
            "evaluations": evaluations,
            "distinct_nontrivial": shapes.len() + sigs.len(),
            "rule": rule,
            "samples": samples,
            "parts": per_part,
            "cross_flavour_run_digests_compared": compared,
            "runs_per_hour": (evaluations as f64 / wall.max(0.001) * 3600.0) as u64,
        },
        "assumptions": assumptions,
        "wall_s": wall,
        "violations": violations,
    });
    write_evidence(&evdir.join(format!("{}.json", prop)), ev);
    println!("b3sim: merged {} parts of {}: {} runs, {} cross-flavour digests compared, exit {}", loaded.len(), prop, evaluations, compared, exit);
    exit
}

/// digest of all per-operation results of a replay file's plan in this build (for compare-flavours replays)
pub fn digest_plan(path: &str) -> i32 {
    let Ok(txt) = std::fs::read_to_string(path) else { return 2 };
    let Ok(rf) = serde_json::from_str::<ReplayFile>(&txt) else { return 2 };
    let out = exec::exec(&rf.plan);
    if out.harness_error.is_some() {
        return 2;
    }
    let mut f = Fnv::default();
    for t in &out.op_digests {
        for d in t {
            f.u64(*d);
        }
    }
    println!("{:016x} violation={}", f.0, out.violation.is_some());
    0
}
