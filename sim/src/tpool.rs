//! A tiny pool of persistent OS threads for simulated tasks. Spawning a fresh
//! thread per task (8 MiB stack mmap) serialises all workers on the process's
//! address-space lock; reusing threads keeps the search parallel.

use std::sync::mpsc::{channel, Sender};
use std::sync::{Arc, Condvar, Mutex};

type Job = Box<dyn FnOnce() + Send + 'static>;

struct Done {
    m: Mutex<bool>,
    cv: Condvar,
}

pub struct Handle {
    done: Arc<Done>,
    waited: bool,
}

impl Handle {
    pub fn wait(&mut self) {
        let mut g = self.done.m.lock().unwrap();
        while !*g {
            g = self.done.cv.wait(g).unwrap();
        }
        self.waited = true;
    }
}

impl Drop for Handle {
    fn drop(&mut self) {
        if !self.waited {
            self.wait();
        }
    }
}

static IDLE: Mutex<Vec<Sender<(Job, Arc<Done>)>>> = Mutex::new(Vec::new());
/// pooled threads addressed by index: which OS thread runs which simulated task is then a function of the
/// plan (task id / deterministic child slot), not of which thread happened to become idle first
static BY_INDEX: Mutex<Vec<Option<Sender<(Job, Arc<Done>)>>>> = Mutex::new(Vec::new());

fn spawn_indexed() -> Sender<(Job, Arc<Done>)> {
    let (tx, rx) = channel::<(Job, Arc<Done>)>();
    std::thread::Builder::new()
        .stack_size(crate::exec::TASK_STACK)
        .spawn(move || {
            crate::guard::thread_altstack();
            while let Ok((job, done)) = rx.recv() {
                let _ = std::panic::catch_unwind(std::panic::AssertUnwindSafe(job));
                let mut g = done.m.lock().unwrap();
                *g = true;
                done.cv.notify_all();
            }
        })
        .expect("spawn pool thread");
    tx
}

/// run on the pooled thread with this index (created on first use; jobs for one index queue up)
pub fn run_on(index: usize, job: Job, fresh: bool) -> Handle {
    if fresh && FRESH.load(std::sync::atomic::Ordering::Relaxed) {
        return run_static_opt(job, true);
    }
    if POISONED.load(std::sync::atomic::Ordering::Relaxed) {
        // an abandoned run left pooled threads stuck inside the library: forget the pool
        let mut g = BY_INDEX.lock().unwrap();
        g.clear();
        drop(g);
        POISONED.store(false, std::sync::atomic::Ordering::Relaxed);
    }
    let done = Arc::new(Done { m: Mutex::new(false), cv: Condvar::new() });
    let tx = {
        let mut g = BY_INDEX.lock().unwrap();
        if g.len() <= index {
            g.resize_with(index + 1, || None);
        }
        g[index].get_or_insert_with(spawn_indexed).clone()
    };
    tx.send((job, done.clone())).expect("pool thread alive");
    Handle { done, waited: false }
}

pub fn run_scoped_on<'a>(index: usize, job: Box<dyn FnOnce() + Send + 'a>) -> Handle {
    let job: Job = unsafe { std::mem::transmute::<Box<dyn FnOnce() + Send + 'a>, Job>(job) };
    run_on(index, job, false)
}

/// set when a run was abandoned with tasks still stuck on pooled threads
pub static POISONED: std::sync::atomic::AtomicBool = std::sync::atomic::AtomicBool::new(false);

/// set per plan (cfg.fresh_threads): do not reuse threads
pub static FRESH: std::sync::atomic::AtomicBool = std::sync::atomic::AtomicBool::new(false);

fn spawn_worker() -> Sender<(Job, Arc<Done>)> {
    let (tx, rx) = channel::<(Job, Arc<Done>)>();
    let tx2 = tx.clone();
    std::thread::Builder::new()
        .stack_size(crate::exec::TASK_STACK)
        .spawn(move || {
            crate::guard::thread_altstack();
            while let Ok((job, done)) = rx.recv() {
                // jobs catch their own panics; a stray one must not kill the pool thread silently
                let _ = std::panic::catch_unwind(std::panic::AssertUnwindSafe(job));
                IDLE.lock().unwrap().push(tx2.clone());
                let mut g = done.m.lock().unwrap();
                *g = true;
                done.cv.notify_all();
            }
        })
        .expect("spawn pool thread");
    tx
}

pub fn run_static(job: Job) -> Handle {
    run_static_opt(job, false)
}

/// `fresh`: a brand-new OS thread for this job (only when the plan asks for it)
pub fn run_static_opt(job: Job, fresh: bool) -> Handle {
    let done = Arc::new(Done { m: Mutex::new(false), cv: Condvar::new() });
    if fresh && FRESH.load(std::sync::atomic::Ordering::Relaxed) {
        let d2 = done.clone();
        std::thread::Builder::new()
            .stack_size(crate::exec::TASK_STACK)
            .spawn(move || {
                crate::guard::thread_altstack();
                let _ = std::panic::catch_unwind(std::panic::AssertUnwindSafe(job));
                let mut g = d2.m.lock().unwrap();
                *g = true;
                d2.cv.notify_all();
            })
            .expect("spawn fresh task thread");
        return Handle { done, waited: false };
    }
    let tx = IDLE.lock().unwrap().pop().unwrap_or_else(spawn_worker);
    tx.send((job, done.clone())).expect("pool thread alive");
    Handle { done, waited: false }
}

/// Run a borrowing closure on a pool thread.
///
/// # Safety contract (enforced by Handle's Drop): the returned handle waits for
/// completion when dropped, so borrows in `job` cannot outlive their owners as
/// long as the handle is not leaked (mem::forget) — it never is in this crate.
pub fn run_scoped<'a>(job: Box<dyn FnOnce() + Send + 'a>) -> Handle {
    let job: Job = unsafe { std::mem::transmute::<Box<dyn FnOnce() + Send + 'a>, Job>(job) };
    run_static(job)
}
