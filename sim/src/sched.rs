//! Baton scheduler: simulated caller tasks are real OS threads, but only the
//! holder of the baton runs. Every scheduling decision comes from the plan's
//! schedule (generator seeded by the plan, or an explicit recorded list).

use crate::plan::{SchedKind, Schedule};
use crate::rng::{Fnv, Rng};
use std::cell::RefCell;
use std::collections::{BTreeMap, BTreeSet};
use std::sync::{Arc, Condvar, Mutex};

pub const MAX_CHOICES: usize = 20_000;

#[derive(Clone, Copy, Debug, PartialEq, Eq)]
enum TState {
    Ready,
    BlockedJoin(usize),
    BlockedRecv(usize),
}

#[derive(Debug)]
pub enum SchedErr {
    Deadlock,
    Stopped,
}

enum Chooser {
    Gen { kind: SchedKind, rng: Rng, points: BTreeSet<usize>, prio: BTreeMap<usize, i64>, low: i64 },
    Explicit { choices: Vec<u8> },
}

struct Inner {
    current: Option<usize>,
    tasks: BTreeMap<usize, TState>,
    finished: BTreeSet<usize>,
    mailbox: BTreeSet<usize>,
    next_id: usize,
    chooser: Chooser,
    recorded: Vec<u8>,
    yields: u64,
    switches: u64,
    trace: Fnv,
    sig: Fnv,
    site_counts: [u64; 24],
    stop: bool,
    deadlock: bool,
    max_live: usize,
    /// pooled-thread indices in use by live child tasks (allocation order is the simulator's, not the OS's)
    thread_slots: BTreeSet<usize>,
}

pub struct Sched {
    inner: Mutex<Inner>,
    cv: Condvar,
}

#[derive(Clone, Debug, Default)]
pub struct SchedStats {
    pub yields: u64,
    pub switches: u64,
    pub choices: Vec<u8>,
    pub trace: u64,
    pub sig: u64,
    pub site_counts: [u64; 24],
    pub deadlock: bool,
    pub max_live: usize,
    pub tasks_total: usize,
}

impl Sched {
    pub fn new(schedule: &Schedule, n_top: usize) -> Arc<Sched> {
        let chooser = match schedule {
            Schedule::Gen { kind, seed } => {
                let mut rng = Rng::new(*seed);
                let mut points = BTreeSet::new();
                if let SchedKind::Bursty { points: p, horizon } = kind {
                    for _ in 0..*p {
                        points.insert(rng.usize_below((*horizon).max(1) as usize));
                    }
                }
                if let SchedKind::Pct { depth, horizon } = kind {
                    for _ in 0..*depth {
                        points.insert(rng.usize_below((*horizon).max(1) as usize));
                    }
                }
                Chooser::Gen { kind: *kind, rng, points, prio: BTreeMap::new(), low: 0 }
            }
            Schedule::Explicit { choices } => Chooser::Explicit { choices: choices.clone() },
        };
        let mut tasks = BTreeMap::new();
        for i in 0..n_top {
            tasks.insert(i, TState::Ready);
        }
        Arc::new(Sched {
            inner: Mutex::new(Inner {
                current: None,
                tasks,
                finished: BTreeSet::new(),
                mailbox: BTreeSet::new(),
                next_id: n_top,
                chooser,
                recorded: Vec::new(),
                yields: 0,
                switches: 0,
                trace: Fnv::default(),
                sig: Fnv::default(),
                site_counts: [0; 24],
                stop: false,
                deadlock: false,
                max_live: n_top,
                thread_slots: BTreeSet::new(),
            }),
            cv: Condvar::new(),
        })
    }

    fn ready_list(g: &Inner) -> Vec<usize> {
        g.tasks
            .iter()
            .filter(|(_, st)| match st {
                TState::Ready => true,
                TState::BlockedJoin(c) => g.finished.contains(c),
                TState::BlockedRecv(s) => g.mailbox.contains(s) || g.stop,
            })
            .map(|(id, _)| *id)
            .collect()
    }

    fn draw(g: &mut Inner, ready: &[usize], me: Option<usize>) -> u8 {
        let idx = g.recorded.len();
        let c = if idx >= MAX_CHOICES {
            0
        } else {
            match &mut g.chooser {
                Chooser::Explicit { choices } => choices.get(idx).copied().unwrap_or(0),
                Chooser::Gen { kind, rng, points, prio, low } => match kind {
                    SchedKind::Pct { .. } => {
                        for t in ready {
                            if !prio.contains_key(t) {
                                let p = 1 + (rng.next() >> 2) as i64;
                                prio.insert(*t, p);
                            }
                        }
                        if points.contains(&idx) {
                            if let Some(m) = me {
                                *low -= 1;
                                prio.insert(m, *low);
                            }
                        }
                        let best = ready.iter().enumerate().max_by_key(|(_, t)| prio.get(t).copied().unwrap_or(0)).map(|(i, _)| i).unwrap_or(0);
                        if Some(ready[best]) == me {
                            0
                        } else {
                            (1 + best).min(255) as u8
                        }
                    }
                    SchedKind::Uniform => 1 + rng.below(255) as u8,
                    SchedKind::Sticky { switch } => {
                        if (rng.below(256) as u8) < *switch {
                            1 + rng.below(255) as u8
                        } else {
                            0
                        }
                    }
                    SchedKind::Bursty { .. } => {
                        if points.contains(&idx) {
                            1 + rng.below(255) as u8
                        } else {
                            0
                        }
                    }
                },
            }
        };
        if idx < MAX_CHOICES {
            g.recorded.push(c);
        }
        c
    }

    /// Decide who runs next. `me` is the deciding task (may be not ready).
    fn pick_next(g: &mut Inner, me: Option<usize>, site: u32) -> Option<usize> {
        let ready = Self::ready_list(g);
        if ready.is_empty() {
            return None;
        }
        let me_ready = me.map_or(false, |m| ready.contains(&m));
        let next = if ready.len() == 1 {
            ready[0]
        } else {
            let c = Self::draw(g, &ready, me);
            if c == 0 {
                if me_ready {
                    me.unwrap()
                } else {
                    ready[0]
                }
            } else {
                ready[(c as usize - 1) % ready.len()]
            }
        };
        // a task that becomes current is Ready again
        g.tasks.insert(next, TState::Ready);
        if Some(next) != me {
            g.switches += 1;
            g.sig.u64(((next as u64) << 8) | site as u64);
        }
        Some(next)
    }

    fn wait_for_baton<'a>(
        &'a self,
        mut g: std::sync::MutexGuard<'a, Inner>,
        id: usize,
    ) -> std::sync::MutexGuard<'a, Inner> {
        while g.current != Some(id) && !g.deadlock {
            g = self.cv.wait(g).unwrap();
        }
        g
    }

    /// Called by the driver once all top-level task threads exist.
    pub fn start(&self) {
        let mut g = self.inner.lock().unwrap();
        let n = Self::pick_next(&mut g, None, 15);
        g.current = n;
        self.cv.notify_all();
    }

    pub fn task_begin(&self, id: usize) {
        let g = self.inner.lock().unwrap();
        let _g = self.wait_for_baton(g, id);
    }

    pub fn yield_point(&self, id: usize, site: u32) {
        let mut g = self.inner.lock().unwrap();
        g.yields += 1;
        g.site_counts[(site as usize).min(23)] += 1;
        g.trace.u64(0x1000_0000_0000_0000 | ((id as u64) << 8) | site as u64);
        if g.deadlock {
            return;
        }
        let next = Self::pick_next(&mut g, Some(id), site).expect("yielding task is ready");
        if next != id {
            g.current = Some(next);
            self.cv.notify_all();
            let _g = self.wait_for_baton(g, id);
        }
    }

    pub fn task_end(&self, id: usize) {
        let mut g = self.inner.lock().unwrap();
        g.tasks.remove(&id);
        g.finished.insert(id);
        g.trace.u64(0x2000_0000_0000_0000 | id as u64);
        if g.deadlock {
            self.cv.notify_all();
            return;
        }
        match Self::pick_next(&mut g, None, 14) {
            Some(n) => g.current = Some(n),
            None => {
                if !g.tasks.is_empty() {
                    g.deadlock = true;
                }
                g.current = None;
            }
        }
        self.cv.notify_all();
    }

    pub fn spawn_child(&self, _parent: usize) -> usize {
        let mut g = self.inner.lock().unwrap();
        let id = g.next_id;
        g.next_id += 1;
        g.tasks.insert(id, TState::Ready);
        let live = g.tasks.len();
        if live > g.max_live {
            g.max_live = live;
        }
        g.trace.u64(0x3000_0000_0000_0000 | id as u64);
        id
    }

    /// lowest free pooled-thread index for a child task (indices below `base` belong to top-level tasks)
    pub fn alloc_thread_slot(&self, base: usize) -> usize {
        let mut g = self.inner.lock().unwrap();
        let mut i = base;
        while g.thread_slots.contains(&i) {
            i += 1;
        }
        g.thread_slots.insert(i);
        i
    }

    pub fn free_thread_slot(&self, i: usize) {
        self.inner.lock().unwrap().thread_slots.remove(&i);
    }

    pub fn live_tasks(&self) -> usize {
        self.inner.lock().unwrap().tasks.len()
    }

    pub fn block_join(&self, id: usize, child: usize) {
        let mut g = self.inner.lock().unwrap();
        if g.finished.contains(&child) {
            return;
        }
        g.tasks.insert(id, TState::BlockedJoin(child));
        g.trace.u64(0x4000_0000_0000_0000 | ((id as u64) << 20) | child as u64);
        match Self::pick_next(&mut g, Some(id), 13) {
            Some(n) => {
                if n != id {
                    g.current = Some(n);
                    self.cv.notify_all();
                    let g2 = self.wait_for_baton(g, id);
                    drop(g2);
                }
            }
            None => {
                // cannot happen: the child is ready or finished
                g.deadlock = true;
                self.cv.notify_all();
            }
        }
    }

    pub fn send(&self, id: usize, slot: usize) {
        let mut g = self.inner.lock().unwrap();
        g.mailbox.insert(slot);
        g.trace.u64(0x5000_0000_0000_0000 | ((id as u64) << 20) | slot as u64);
    }

    pub fn recv(&self, id: usize, slot: usize) -> Result<(), SchedErr> {
        let mut g = self.inner.lock().unwrap();
        loop {
            if g.mailbox.remove(&slot) {
                g.trace.u64(0x6000_0000_0000_0000 | ((id as u64) << 20) | slot as u64);
                return Ok(());
            }
            if g.stop {
                return Err(SchedErr::Stopped);
            }
            if g.deadlock {
                return Err(SchedErr::Deadlock);
            }
            g.tasks.insert(id, TState::BlockedRecv(slot));
            match Self::pick_next(&mut g, Some(id), 12) {
                Some(n) => {
                    if n != id {
                        g.current = Some(n);
                        self.cv.notify_all();
                        g = self.wait_for_baton(g, id);
                    }
                }
                None => {
                    g.deadlock = true;
                    g.tasks.insert(id, TState::Ready);
                    self.cv.notify_all();
                    return Err(SchedErr::Deadlock);
                }
            }
        }
    }

    pub fn record(&self, v: u64) {
        let mut g = self.inner.lock().unwrap();
        g.trace.u64(v);
    }

    pub fn set_stop(&self) {
        let mut g = self.inner.lock().unwrap();
        g.stop = true;
    }

    pub fn stopped(&self) -> bool {
        let g = self.inner.lock().unwrap();
        g.stop || g.deadlock
    }

    /// Wait until every task has ended. Returns false on timeout (harness error).
    pub fn wait_all_done(&self) -> bool {
        let mut g = self.inner.lock().unwrap();
        let t0 = std::time::Instant::now();
        while !g.tasks.is_empty() {
            let (g2, _) = self.cv.wait_timeout(g, std::time::Duration::from_millis(200)).unwrap();
            g = g2;
            // longer than the liveness watchdog (guard::start_watchdog): a call into the library that never returns
            // is reported by the watchdog as a violation with a replay; only a stuck harness ends up here
            if t0.elapsed().as_secs() > WAIT_LIMIT_S.load(std::sync::atomic::Ordering::Relaxed) {
                return false;
            }
        }
        true
    }

    pub fn stats(&self) -> SchedStats {
        let g = self.inner.lock().unwrap();
        SchedStats {
            yields: g.yields,
            switches: g.switches,
            choices: g.recorded.clone(),
            trace: g.trace.0,
            sig: g.sig.0,
            site_counts: g.site_counts,
            deadlock: g.deadlock,
            max_live: g.max_live,
            tasks_total: g.next_id,
        }
    }
}

/// how long a run may take before the coordinator gives up on it (seconds)
pub static WAIT_LIMIT_S: std::sync::atomic::AtomicU64 = std::sync::atomic::AtomicU64::new(900);

// ---- thread-local task context, used by the hooks installed into blake3 ----

pub struct TaskCtx {
    pub sched: Arc<Sched>,
    pub id: usize,
    pub quiet: u32,
}

thread_local! {
    pub static CTX: RefCell<Option<TaskCtx>> = const { RefCell::new(None) };
}

pub fn set_ctx(ctx: Option<TaskCtx>) {
    CTX.with(|c| *c.borrow_mut() = ctx);
}

/// Run `f` with yields suppressed (oracle computations must not be scheduling points).
pub fn quiet<T>(f: impl FnOnce() -> T) -> T {
    CTX.with(|c| {
        if let Some(ctx) = c.borrow_mut().as_mut() {
            ctx.quiet += 1;
        }
    });
    struct Guard;
    impl Drop for Guard {
        fn drop(&mut self) {
            CTX.with(|c| {
                if let Some(ctx) = c.borrow_mut().as_mut() {
                    ctx.quiet -= 1;
                }
            });
        }
    }
    let _g = Guard;
    f()
}

pub fn current() -> Option<(Arc<Sched>, usize)> {
    CTX.with(|c| {
        c.borrow().as_ref().and_then(|ctx| {
            if ctx.quiet > 0 {
                None
            } else {
                Some((ctx.sched.clone(), ctx.id))
            }
        })
    })
}

/// The yield hook installed into blake3 (H2) and called from harness seams.
pub fn hook_yield(site: u32) {
    if let Some((s, id)) = current() {
        s.yield_point(id, site);
    }
}

pub const SITE_READER: u32 = 5;
pub const SITE_OP: u32 = 6;
pub const SITE_JOIN: u32 = 7;
