//! exec(plan): runs a plan under the baton scheduler against the real crate,
//! checking every operation against its oracle. Draws nothing from a PRNG.

use crate::model::{self, MMode, Node};
use crate::plan::*;
use crate::rng::Fnv;
use crate::sched::{self, Sched, SchedStats, TaskCtx};
use std::collections::{BTreeMap, BTreeSet};
use std::panic::{catch_unwind, AssertUnwindSafe};
use std::sync::atomic::{AtomicUsize, Ordering};
use std::sync::{Arc, Mutex};

pub const TASK_STACK: usize = 8 << 20;

/// set in the first-use child: several single-task plans execute at once on real threads and nothing may
/// touch the libraries (not even CPU detection) before the tasks do
pub static FIRST_USE: std::sync::atomic::AtomicBool = std::sync::atomic::AtomicBool::new(false);

#[derive(Clone, Debug)]
pub struct Viol {
    pub class: &'static str,
    pub detail: String,
}

pub type OpResult = Result<u64, OpErr>;

pub enum OpErr {
    /// the property is violated
    Viol(Viol),
    /// op outside the documented domain or dangling slot: not executed
    Skip,
    /// harness problem (exit 2)
    Harness(String),
}

pub fn viol<T>(class: &'static str, detail: String) -> Result<T, OpErr> {
    Err(OpErr::Viol(Viol { class, detail }))
}

#[derive(Default, Debug, Clone)]
pub struct RunStats {
    pub ops: u64,
    pub skipped: u64,
    pub faults: BTreeMap<&'static str, u64>,
    pub probes: BTreeMap<&'static str, u64>,
    pub shapes: BTreeSet<u64>,
    pub bytes: u64,
    /// (task, op, what, memory before, memory after) snapshots for the self-composition judge (C17)
    pub blobs: Vec<(usize, usize, String, Vec<u8>, Vec<u8>)>,
}

pub struct ExecOut {
    pub violation: Option<Violation>,
    pub harness_error: Option<String>,
    pub op_digests: Vec<Vec<u64>>,
    pub stats: RunStats,
    pub sched: SchedStats,
}

impl ExecOut {
    pub fn trace_digest(&self) -> u64 {
        let mut f = Fnv(self.sched.trace);
        for t in &self.op_digests {
            for d in t {
                f.u64(*d);
            }
        }
        f.0
    }
}

pub struct HSlot {
    pub h: blake3::Hasher,
    pub mode: MMode,
    pub absorbed: Vec<u8>,
    pub offset: u64,
    /// lockstep twin created at reset (C10): a freshly constructed hasher of the same mode
    pub twin: Option<blake3::Hasher>,
}

pub struct RSlot {
    pub r: blake3::OutputReader,
    pub node: Node,
    pub pos: u64,
}

#[derive(Clone)]
pub struct CvSlot {
    pub cv: [u8; 32],
    pub mode: MMode,
    /// the bytes this chaining value covers and their offset in the whole input, when known
    pub bytes: Option<Vec<u8>>,
    pub off: u64,
}

pub enum Slot {
    H(Box<HSlot>),
    R(Box<RSlot>),
    Cv(CvSlot),
    C(Box<crate::cnode::CSlot>),
}

pub struct Shared {
    pub plan: Plan,
    pub data: Vec<Vec<u8>>,
    pub sched: Arc<Sched>,
    pub mailbox: Mutex<BTreeMap<usize, Slot>>,
    pub violation: Mutex<Option<Violation>>,
    pub harness: Mutex<Option<String>>,
    pub digests: Mutex<Vec<Vec<u64>>>,
    pub stats: Mutex<RunStats>,
    pub scratch: Mutex<Option<std::path::PathBuf>>,
    pub file_ctr: AtomicUsize,
    pub cli: Mutex<crate::cli::CliState>,
}

impl Shared {
    pub fn fault(&self, name: &'static str) {
        *self.stats.lock().unwrap().faults.entry(name).or_insert(0) += 1;
    }
    pub fn probe(&self, name: &'static str) {
        *self.stats.lock().unwrap().probes.entry(name).or_insert(0) += 1;
    }
    pub fn shape(&self, key: u64) {
        self.stats.lock().unwrap().shapes.insert(key);
    }
    /// per-run scratch directory (created lazily, removed after the run)
    pub fn scratch_dir(&self) -> Result<std::path::PathBuf, OpErr> {
        let mut g = self.scratch.lock().unwrap();
        if g.is_none() {
            static CTR2: AtomicUsize = AtomicUsize::new(0);
            let d = std::env::temp_dir().join(format!("b3sim.{}.d{}", std::process::id(), CTR2.fetch_add(1, Ordering::Relaxed)));
            std::fs::create_dir_all(&d).map_err(|e| OpErr::Harness(format!("scratch: {e}")))?;
            *g = Some(d);
        }
        Ok(g.as_ref().unwrap().clone())
    }
    pub fn scratch_file(&self, bytes: &[u8]) -> Result<std::path::PathBuf, OpErr> {
        let mut g = self.scratch.lock().unwrap();
        if g.is_none() {
            static CTR: AtomicUsize = AtomicUsize::new(0);
            let d = std::env::temp_dir().join(format!(
                "b3sim.{}.{}",
                std::process::id(),
                CTR.fetch_add(1, Ordering::Relaxed)
            ));
            std::fs::create_dir_all(&d).map_err(|e| OpErr::Harness(format!("scratch: {e}")))?;
            *g = Some(d);
        }
        let p = g.as_ref().unwrap().join(format!("f{}", self.file_ctr.fetch_add(1, Ordering::Relaxed)));
        std::fs::write(&p, bytes).map_err(|e| OpErr::Harness(format!("scratch write: {e}")))?;
        Ok(p)
    }
}

// ---------------------------------------------------------------------------------------------
// panic capture: silent inside simulated tasks, message kept for the violation detail

thread_local! {
    static IN_TASK: std::cell::Cell<bool> = const { std::cell::Cell::new(false) };
    static LAST_PANIC: std::cell::RefCell<String> = const { std::cell::RefCell::new(String::new()) };
}

pub fn install_panic_hook() {
    let default = std::panic::take_hook();
    std::panic::set_hook(Box::new(move |info| {
        if IN_TASK.with(|t| t.get()) {
            let msg = if let Some(s) = info.payload().downcast_ref::<&str>() {
                s.to_string()
            } else if let Some(s) = info.payload().downcast_ref::<String>() {
                s.clone()
            } else {
                "<non-string panic>".to_string()
            };
            let loc = info.location().map(|l| format!("{}:{}", l.file(), l.line())).unwrap_or_default();
            LAST_PANIC.with(|p| *p.borrow_mut() = format!("{msg} @ {loc}"));
        } else {
            default(info);
        }
    }));
}

pub fn set_in_task(v: bool) {
    IN_TASK.with(|t| t.set(v));
}

pub fn last_panic() -> String {
    LAST_PANIC.with(|p| p.borrow().clone())
}

// ---------------------------------------------------------------------------------------------
// platform levels

pub fn platform_of(level: Level) -> Option<blake3::platform::Platform> {
    use blake3::platform::Platform;
    match level {
        Level::Detect => None,
        Level::Portable => Some(Platform::portable()),
        Level::SSE2 => Platform::sse2(),
        Level::SSE41 => Platform::sse41(),
        Level::AVX2 => Platform::avx2(),
        Level::AVX512 => avx512(),
    }
}

#[cfg(not(feature = "pure"))]
fn avx512() -> Option<blake3::platform::Platform> {
    blake3::platform::Platform::avx512()
}
#[cfg(feature = "pure")]
fn avx512() -> Option<blake3::platform::Platform> {
    None
}

/// Levels this build and CPU can run (always includes Portable and Detect).
pub fn available_levels() -> Vec<Level> {
    let mut v = vec![Level::Portable];
    for l in [Level::SSE2, Level::SSE41, Level::AVX2, Level::AVX512] {
        if platform_of(l).is_some() {
            v.push(l);
        }
    }
    v
}

thread_local! {
    static CUR_LEVEL: std::cell::Cell<Level> = const { std::cell::Cell::new(Level::Detect) };
}

pub fn apply_level(level: Level) {
    // an unavailable level falls back to detection (recorded by callers as skipped config)
    blake3::verif::set_platform(platform_of(level));
    CUR_LEVEL.with(|c| c.set(level));
}

pub fn current_level() -> Level {
    CUR_LEVEL.with(|c| c.get())
}

// ---------------------------------------------------------------------------------------------
// join control (H3)

#[derive(Clone)]
pub struct JoinCtl {
    pub policy: JoinPolicy,
    pub counter: Arc<AtomicUsize>,
    pub width: usize,
    pub shared: Arc<Shared>,
}

thread_local! {
    static JOINCTL: std::cell::RefCell<Option<JoinCtl>> = const { std::cell::RefCell::new(None) };
}

pub fn set_joinctl(c: Option<JoinCtl>) {
    JOINCTL.with(|j| *j.borrow_mut() = c);
}

#[derive(Clone, Copy, PartialEq, Debug)]
pub enum JDec {
    Left,
    Right,
    Conc,
}

pub fn decide(policy: &JoinPolicy, i: usize) -> JDec {
    match policy {
        JoinPolicy::AllLeft => JDec::Left,
        JoinPolicy::AllRight => JDec::Right,
        JoinPolicy::AllConcurrent => JDec::Conc,
        JoinPolicy::PerSplit { bits } => {
            if bits.is_empty() {
                return JDec::Left;
            }
            let b = bits[(i / 4) % bits.len()];
            match (b >> (2 * (i % 4))) & 3 {
                0 => JDec::Left,
                1 => JDec::Right,
                _ => JDec::Conc,
            }
        }
    }
}

/// Runs the two halves of one split as the policy says. Used by the Rust join
/// hook (H3) and by the C TBB seam.
pub fn run_split(left: &mut (dyn FnMut() + Send), right: &mut (dyn FnMut() + Send)) {
    let ctl = JOINCTL.with(|j| j.borrow().clone());
    let Some(ctl) = ctl else {
        left();
        right();
        return;
    };
    let i = ctl.counter.fetch_add(1, Ordering::SeqCst);
    sched::hook_yield(sched::SITE_JOIN);
    match decide(&ctl.policy, i) {
        JDec::Left => {
            ctl.shared.probe("split_left_first");
            left();
            right();
        }
        JDec::Right => {
            ctl.shared.probe("split_right_first");
            right();
            left();
        }
        JDec::Conc => {
            let Some((sched, id)) = sched::current() else {
                left();
                right();
                return;
            };
            if sched.live_tasks() >= ctl.width.max(1) {
                ctl.shared.probe("split_pool_saturated_inline");
                left();
                right();
                return;
            }
            ctl.shared.probe("split_concurrent");
            let child = sched.spawn_child(id);
            let level = current_level();
            let ctl2 = ctl.clone();
            let sched2 = sched.clone();
            let rres_cell: Mutex<Option<Result<(), String>>> = Mutex::new(None);
            let lres;
            {
                let cell = &rres_cell;
                let tslot = sched.alloc_thread_slot(16);
                let mut handle = crate::tpool::run_scoped_on(tslot, Box::new(move || {
                    sched::set_ctx(Some(TaskCtx { sched: sched2.clone(), id: child, quiet: 0 }));
                    set_joinctl(Some(ctl2));
                    apply_level(level);
                    set_in_task(true);
                    sched2.task_begin(child);
                    let r = catch_unwind(AssertUnwindSafe(|| right()));
                    let msg = if r.is_err() { last_panic() } else { String::new() };
                    set_joinctl(None);
                    set_in_task(false);
                    blake3::verif::set_platform(None);
                    sched::set_ctx(None);
                    *cell.lock().unwrap() = Some(r.map(|_| ()).map_err(|_| msg));
                    sched2.task_end(child);
                }));
                lres = catch_unwind(AssertUnwindSafe(|| left()));
                sched.block_join(id, child);
                handle.wait();
                sched.free_thread_slot(tslot);
            }
            let rres = rres_cell.into_inner().unwrap().unwrap_or(Err("child did not run".into()));
            if let Err(p) = lres {
                std::panic::resume_unwind(p);
            }
            if let Err(msg) = rres {
                panic!("right half panicked: {msg}");
            }
        }
    }
}

fn rust_join_hook(left: blake3::verif::JoinHalf<'_>, right: blake3::verif::JoinHalf<'_>) {
    run_split(left, right);
}

/// coordinator while shrinking: a run that exceeds sched::WAIT_LIMIT_S is abandoned instead of ending the process
pub static SOFT_TIMEOUT: std::sync::atomic::AtomicBool = std::sync::atomic::AtomicBool::new(false);
/// an abandoned run happened in this process (threads stuck inside the library remain)
pub static ABANDONED: std::sync::atomic::AtomicBool = std::sync::atomic::AtomicBool::new(false);

pub fn install_hooks() {
    blake3::verif::set_yield_hook(Some(sched::hook_yield));
    blake3::verif::set_join_hook(Some(rust_join_hook));
    crate::cnode::install_c_hooks();
    install_panic_hook();
}

// ---------------------------------------------------------------------------------------------
// the driver

pub struct TaskLocal {
    pub id: usize,
    pub slots: BTreeMap<usize, Slot>,
}

pub fn exec(plan: &Plan) -> ExecOut {
    let data: Vec<Vec<u8>> = plan.data.iter().map(|d| d.materialize(plan.cfg.secret_xor)).collect();
    let n = plan.tasks.len();
    crate::tpool::FRESH.store(plan.cfg.fresh_threads, Ordering::Relaxed);
    crate::ops::ensure_global_pool();
    crate::guard::GUARD_RUN.store(plan.cfg.guard_alloc, Ordering::Relaxed);
    if !FIRST_USE.load(Ordering::Relaxed) {
        crate::guard::reset_arena();
        // every run starts from the same C dispatcher state
        crate::cnode::set_mask(crate::cnode::detected_mask());
    }
    let sched = Sched::new(&plan.schedule, n);
    let shared = Arc::new(Shared {
        plan: plan.clone(),
        data,
        sched: sched.clone(),
        mailbox: Mutex::new(BTreeMap::new()),
        violation: Mutex::new(None),
        harness: Mutex::new(None),
        digests: Mutex::new(plan.tasks.iter().map(|t| vec![0u64; t.ops.len()]).collect()),
        stats: Mutex::new(RunStats::default()),
        scratch: Mutex::new(None),
        file_ctr: AtomicUsize::new(0),
        cli: Mutex::new(crate::cli::CliState::default()),
    });
    if n == 0 {
        return finish(shared, true);
    }
    let mut ok = true;
    if n == 1 {
        sched.start();
        run_task(shared.clone(), 0);
    } else {
        let mut handles = Vec::new();
        for id in 0..n {
            let sh = shared.clone();
            // with cfg.fresh_threads every other task runs on a brand-new OS thread, the rest on pooled (old) ones:
            // long-lived and short-lived thread identities meet in one run
            handles.push(crate::tpool::run_on(id, Box::new(move || run_task(sh, id)), id % 2 == 1));
        }
        sched.start();
        ok = sched.wait_all_done();
        if !ok && SOFT_TIMEOUT.load(Ordering::Relaxed) {
            // shrinking in the coordinator: this candidate blocks inside the library (the shards' watchdog reports
            // such a run as a hang); abandon it, its threads stay stuck, later runs get new threads
            ABANDONED.store(true, Ordering::Relaxed);
            crate::tpool::POISONED.store(true, Ordering::Relaxed);
            // the handles' Drop would wait for the stuck tasks
            std::mem::forget(std::mem::take(&mut handles));
            return finish(shared, false);
        }
        if !ok {
            // cannot unblock stuck threads safely: report and abort the process
            eprintln!("HARNESS: scheduler timeout, plan seed {}", shared.plan.seed);
            std::process::exit(2);
        }
        for h in handles.iter_mut() {
            h.wait();
        }
    }
    finish(shared, ok)
}

fn finish(shared: Arc<Shared>, ok: bool) -> ExecOut {
    let st = shared.sched.stats();
    if let Some(d) = shared.scratch.lock().unwrap().take() {
        let _ = std::fs::remove_dir_all(d);
    }
    let mut harness = shared.harness.lock().unwrap().clone();
    if !ok {
        harness = Some("scheduler timeout".into());
    }
    let violation = shared.violation.lock().unwrap().clone();
    if st.deadlock && violation.is_none() && harness.is_none() {
        harness = Some("deadlock: no runnable task".into());
    }
    let op_digests = shared.digests.lock().unwrap().clone();
    let stats = shared.stats.lock().unwrap().clone();
    ExecOut { violation, harness_error: harness, op_digests, stats, sched: st }
}

fn run_task(shared: Arc<Shared>, id: usize) {
    let sched = shared.sched.clone();
    sched::set_ctx(Some(TaskCtx { sched: sched.clone(), id, quiet: 0 }));
    let level = shared.plan.tasks[id].level;
    apply_level(level);
    set_in_task(true);
    sched.task_begin(id);
    let mut local = TaskLocal { id, slots: BTreeMap::new() };
    let ops = shared.plan.tasks[id].ops.clone();
    for (i, op) in ops.iter().enumerate() {
        if sched.stopped() {
            break;
        }
        sched.yield_point(id, sched::SITE_OP);
        if sched.stopped() {
            break;
        }
        crate::guard::CUR_TASK_OP.store(((id as u64) << 32) | i as u64, Ordering::Relaxed);
        let res = {
            let _sut = crate::guard::SutGuard::enter();
            catch_unwind(AssertUnwindSafe(|| crate::ops::do_op(&shared, &mut local, op)))
        };
        // a panic may have left yields suppressed
        sched::set_ctx(Some(TaskCtx { sched: sched.clone(), id, quiet: 0 }));
        set_joinctl(None);
        let (digest, v) = match res {
            Ok(Ok(d)) => {
                shared.stats.lock().unwrap().ops += 1;
                (d, None)
            }
            Ok(Err(OpErr::Skip)) => {
                shared.stats.lock().unwrap().skipped += 1;
                (0, None)
            }
            Ok(Err(OpErr::Viol(v))) => (1, Some(v)),
            Ok(Err(OpErr::Harness(m))) => {
                *shared.harness.lock().unwrap() = Some(m);
                sched.set_stop();
                (2, None)
            }
            Err(_) => (3, Some(Viol { class: "panic", detail: last_panic() })),
        };
        crate::guard::PROGRESS.fetch_add(1, Ordering::Relaxed);
        shared.digests.lock().unwrap()[id][i] = digest;
        sched.record(0x7000_0000_0000_0000 ^ ((id as u64) << 40) ^ ((i as u64) << 20) ^ (digest & 0xFFFFF));
        if let Some(v) = v {
            let mut g = shared.violation.lock().unwrap();
            if g.is_none() {
                *g = Some(Violation {
                    property: shared.plan.prop.clone(),
                    class: v.class.to_string(),
                    task: id,
                    op: i,
                    op_kind: op.kind().to_string(),
                    detail: v.detail,
                });
            }
            sched.set_stop();
            break;
        }
    }
    drop(local);
    set_in_task(false);
    blake3::verif::set_platform(None);
    sched::set_ctx(None);
    sched.task_end(id);
}
