//! Direct kernel operations for C07: every buffer from GuardAlloc, every
//! assembly / C kernel called through a trampoline that plants sentinels in the
//! callee-saved registers of its calling convention and compares them, the
//! stack pointer and the direction flag afterwards.

use crate::exec::*;
use crate::guard::{place_of, GuardBuf, Place};
use crate::plan::*;
use crate::rng::{Fnv, Rng};
use std::sync::Arc;

core::arch::global_asm!(
    r#"
    .bss
    .balign 8
b3v_saved_rsp:
    .quad 0
    .text
    .globl b3v_tramp_sysv
    .type b3v_tramp_sysv,@function
b3v_tramp_sysv:
    push rbx
    push rbp
    push r12
    push r13
    push r14
    push r15
    mov rax, rsp
    and rsp, -64
    sub rsp, r8
    sub rsp, 48
    mov [rsp], rdi
    mov [rsp+8], rsi
    mov [rsp+16], rdx
    mov [rsp+24], rcx
    mov [rsp+32], rax
    mov rax, rsi
    push qword ptr [rax+72]
    push qword ptr [rax+64]
    push qword ptr [rax+56]
    push qword ptr [rax+48]
    mov r10, rdx
    mov rbx, [r10]
    mov rbp, [r10+8]
    mov r12, [r10+16]
    mov r13, [r10+24]
    mov r14, [r10+32]
    mov r15, [r10+40]
    mov r11, [rsp+32]
    mov rdi, [rax]
    mov rsi, [rax+8]
    mov rdx, [rax+16]
    mov rcx, [rax+24]
    mov r8, [rax+32]
    mov r9, [rax+40]
    mov [rip + b3v_saved_rsp], rsp
    call r11
    mov r10, [rip + b3v_saved_rsp]
    mov r11, rsp
    mov rsp, r10
    sub r11, r10
    mov r10, [rsp+56]
    mov [r10], rbx
    mov [r10+8], rbp
    mov [r10+16], r12
    mov [r10+24], r13
    mov [r10+32], r14
    mov [r10+40], r15
    mov [r10+48], r11
    pushfq
    pop r11
    mov [r10+56], r11
    mov [r10+64], rax
    cld
    mov rsp, [rsp+64]
    pop r15
    pop r14
    pop r13
    pop r12
    pop rbp
    pop rbx
    ret
    .size b3v_tramp_sysv, .-b3v_tramp_sysv

    .globl b3v_tramp_win64
    .type b3v_tramp_win64,@function
b3v_tramp_win64:
    push rbx
    push rbp
    push r12
    push r13
    push r14
    push r15
    mov rax, rsp
    and rsp, -64
    sub rsp, r8
    sub rsp, 48
    mov [rsp], rdi
    mov [rsp+8], rsi
    mov [rsp+16], rdx
    mov [rsp+24], rcx
    mov [rsp+32], rax
    mov rax, rsi
    sub rsp, 80
    mov r10, [rax+32]
    mov [rsp+32], r10
    mov r10, [rax+40]
    mov [rsp+40], r10
    mov r10, [rax+48]
    mov [rsp+48], r10
    mov r10, [rax+56]
    mov [rsp+56], r10
    mov r10, [rax+64]
    mov [rsp+64], r10
    mov r10, [rax+72]
    mov [rsp+72], r10
    mov r10, rdx
    mov rbx, [r10]
    mov rbp, [r10+8]
    mov rdi, [r10+16]
    mov rsi, [r10+24]
    mov r12, [r10+32]
    mov r13, [r10+40]
    mov r14, [r10+48]
    mov r15, [r10+56]
    movdqu xmm6, [r10+64]
    movdqu xmm7, [r10+80]
    movdqu xmm8, [r10+96]
    movdqu xmm9, [r10+112]
    movdqu xmm10, [r10+128]
    movdqu xmm11, [r10+144]
    movdqu xmm12, [r10+160]
    movdqu xmm13, [r10+176]
    movdqu xmm14, [r10+192]
    movdqu xmm15, [r10+208]
    mov r11, [rsp+80]
    mov rcx, [rax]
    mov rdx, [rax+8]
    mov r8, [rax+16]
    mov r9, [rax+24]
    mov [rip + b3v_saved_rsp], rsp
    call r11
    mov r10, [rip + b3v_saved_rsp]
    mov r11, rsp
    mov rsp, r10
    sub r11, r10
    mov r10, [rsp+104]
    mov [r10], rbx
    mov [r10+8], rbp
    mov [r10+16], rdi
    mov [r10+24], rsi
    mov [r10+32], r12
    mov [r10+40], r13
    mov [r10+48], r14
    mov [r10+56], r15
    mov [r10+64], r11
    pushfq
    pop r11
    mov [r10+72], r11
    mov [r10+80], rax
    movdqu [r10+96], xmm6
    movdqu [r10+112], xmm7
    movdqu [r10+128], xmm8
    movdqu [r10+144], xmm9
    movdqu [r10+160], xmm10
    movdqu [r10+176], xmm11
    movdqu [r10+192], xmm12
    movdqu [r10+208], xmm13
    movdqu [r10+224], xmm14
    movdqu [r10+240], xmm15
    cld
    vzeroupper
    mov rsp, [rsp+112]
    pop r15
    pop r14
    pop r13
    pop r12
    pop rbp
    pop rbx
    ret
    .size b3v_tramp_win64, .-b3v_tramp_win64
"#
);

extern "C" {
    fn b3v_tramp_sysv(target: *const (), args: *const u64, sent: *const u64, out: *mut u64, pad: u64);
    fn b3v_tramp_win64(target: *const (), args: *const u64, sent: *const u64, out: *mut u64, pad: u64);
}

macro_rules! ksyms {
    ($($id:ident = $name:literal),* $(,)?) => {
        extern "C" { $( #[link_name = $name] fn $id(); )* }
    };
}
ksyms!(
    ca_hm_sse2 = "ca_blake3_hash_many_sse2", ca_hm_sse41 = "ca_blake3_hash_many_sse41", ca_hm_avx2 = "ca_blake3_hash_many_avx2", ca_hm_avx512 = "ca_blake3_hash_many_avx512",
    ca_cip_sse2 = "ca_blake3_compress_in_place_sse2", ca_cip_sse41 = "ca_blake3_compress_in_place_sse41", ca_cip_avx512 = "ca_blake3_compress_in_place_avx512",
    ca_cx_sse2 = "ca_blake3_compress_xof_sse2", ca_cx_sse41 = "ca_blake3_compress_xof_sse41", ca_cx_avx512 = "ca_blake3_compress_xof_avx512",
    ca_xm_avx512 = "ca_blake3_xof_many_avx512",
    ci_hm_portable = "ci_blake3_hash_many_portable", ci_cip_portable = "ci_blake3_compress_in_place_portable", ci_cx_portable = "ci_blake3_compress_xof_portable",
    ci_hm_sse2 = "ci_blake3_hash_many_sse2", ci_hm_sse41 = "ci_blake3_hash_many_sse41", ci_hm_avx2 = "ci_blake3_hash_many_avx2", ci_hm_avx512 = "ci_blake3_hash_many_avx512",
    ci_cip_sse2 = "ci_blake3_compress_in_place_sse2", ci_cip_sse41 = "ci_blake3_compress_in_place_sse41", ci_cip_avx512 = "ci_blake3_compress_in_place_avx512",
    ci_cx_sse2 = "ci_blake3_compress_xof_sse2", ci_cx_sse41 = "ci_blake3_compress_xof_sse41", ci_cx_avx512 = "ci_blake3_compress_xof_avx512",
    ci_xm_avx512 = "ci_blake3_xof_many_avx512",
    win_hm_sse2 = "win_blake3_hash_many_sse2", win_hm_sse41 = "win_blake3_hash_many_sse41", win_hm_avx2 = "win_blake3_hash_many_avx2", win_hm_avx512 = "win_blake3_hash_many_avx512",
    win_cip_sse2 = "win_blake3_compress_in_place_sse2", win_cip_sse41 = "win_blake3_compress_in_place_sse41", win_cip_avx512 = "win_blake3_compress_in_place_avx512",
    win_cx_sse2 = "win_blake3_compress_xof_sse2", win_cx_sse41 = "win_blake3_compress_xof_sse41", win_cx_avx512 = "win_blake3_compress_xof_avx512",
    ca_d_hm = "ca_blake3_hash_many", ca_d_cip = "ca_blake3_compress_in_place", ca_d_cx = "ca_blake3_compress_xof", ca_d_xm = "ca_blake3_xof_many",
    cn_hm_avx2 = "cn_blake3_hash_many_avx2",
    ci_d_hm = "ci_blake3_hash_many", ci_d_cip = "ci_blake3_compress_in_place", ci_d_cx = "ci_blake3_compress_xof", ci_d_xm = "ci_blake3_xof_many",
);

#[derive(Clone, Copy, PartialEq, Debug)]
pub enum KKind {
    HashMany,
    CompressInPlace,
    CompressXof,
    XofMany,
}

#[derive(Clone, Copy, PartialEq, Debug)]
pub enum Abi {
    SysV,
    Win64,
    /// the crate's own Platform method (Rust ABI, no trampoline)
    Rust(Level),
}

pub struct KEntry {
    pub name: &'static str,
    pub addr: usize,
    pub kind: KKind,
    pub abi: Abi,
    pub degree: usize,
    /// C feature bit(s) the CPU must have (see c/blake3_dispatch.c)
    pub need: i32,
}

pub fn table() -> Vec<KEntry> {
    use Abi::*;
    use KKind::*;
    let e = |name, f: unsafe extern "C" fn(), kind, abi, degree, need| KEntry { name, addr: f as usize, kind, abi, degree, need };
    let mut v = vec![
        e("ca_hash_many_sse2", ca_hm_sse2, HashMany, SysV, 4, 0x01),
        e("ca_hash_many_sse41", ca_hm_sse41, HashMany, SysV, 4, 0x04),
        e("ca_hash_many_avx2", ca_hm_avx2, HashMany, SysV, 8, 0x10),
        e("ca_hash_many_avx512", ca_hm_avx512, HashMany, SysV, 16, 0x60),
        e("ca_compress_in_place_sse2", ca_cip_sse2, CompressInPlace, SysV, 1, 0x01),
        e("ca_compress_in_place_sse41", ca_cip_sse41, CompressInPlace, SysV, 1, 0x04),
        e("ca_compress_in_place_avx512", ca_cip_avx512, CompressInPlace, SysV, 1, 0x60),
        e("ca_compress_xof_sse2", ca_cx_sse2, CompressXof, SysV, 1, 0x01),
        e("ca_compress_xof_sse41", ca_cx_sse41, CompressXof, SysV, 1, 0x04),
        e("ca_compress_xof_avx512", ca_cx_avx512, CompressXof, SysV, 1, 0x60),
        e("ca_xof_many_avx512", ca_xm_avx512, XofMany, SysV, 16, 0x60),
        e("ci_hash_many_portable", ci_hm_portable, HashMany, SysV, 1, 0),
        e("ci_compress_in_place_portable", ci_cip_portable, CompressInPlace, SysV, 1, 0),
        e("ci_compress_xof_portable", ci_cx_portable, CompressXof, SysV, 1, 0),
        e("ci_hash_many_sse2", ci_hm_sse2, HashMany, SysV, 4, 0x01),
        e("ci_hash_many_sse41", ci_hm_sse41, HashMany, SysV, 4, 0x04),
        e("ci_hash_many_avx2", ci_hm_avx2, HashMany, SysV, 8, 0x10),
        e("ci_hash_many_avx512", ci_hm_avx512, HashMany, SysV, 16, 0x60),
        e("ci_compress_in_place_sse2", ci_cip_sse2, CompressInPlace, SysV, 1, 0x01),
        e("ci_compress_in_place_sse41", ci_cip_sse41, CompressInPlace, SysV, 1, 0x04),
        e("ci_compress_in_place_avx512", ci_cip_avx512, CompressInPlace, SysV, 1, 0x60),
        e("ci_compress_xof_sse2", ci_cx_sse2, CompressXof, SysV, 1, 0x01),
        e("ci_compress_xof_sse41", ci_cx_sse41, CompressXof, SysV, 1, 0x04),
        e("ci_compress_xof_avx512", ci_cx_avx512, CompressXof, SysV, 1, 0x60),
        e("ci_xof_many_avx512", ci_xm_avx512, XofMany, SysV, 16, 0x60),
        e("win_hash_many_sse2", win_hm_sse2, HashMany, Win64, 4, 0x01),
        e("win_hash_many_sse41", win_hm_sse41, HashMany, Win64, 4, 0x04),
        e("win_hash_many_avx2", win_hm_avx2, HashMany, Win64, 8, 0x10),
        e("win_hash_many_avx512", win_hm_avx512, HashMany, Win64, 16, 0x60),
        e("win_compress_in_place_sse2", win_cip_sse2, CompressInPlace, Win64, 1, 0x01),
        e("win_compress_in_place_sse41", win_cip_sse41, CompressInPlace, Win64, 1, 0x04),
        e("win_compress_in_place_avx512", win_cip_avx512, CompressInPlace, Win64, 1, 0x60),
        e("win_compress_xof_sse2", win_cx_sse2, CompressXof, Win64, 1, 0x01),
        e("win_compress_xof_sse41", win_cx_sse41, CompressXof, Win64, 1, 0x04),
        e("win_compress_xof_avx512", win_cx_avx512, CompressXof, Win64, 1, 0x60),
    ];
    // the dispatcher's own entry points (whatever the feature mask of the run selects; zero counts are legal here)
    v.push(e("ca_dispatch_hash_many", ca_d_hm, HashMany, SysV, 16, 0));
    v.push(e("ca_dispatch_compress_in_place", ca_d_cip, CompressInPlace, SysV, 1, 0));
    v.push(e("ca_dispatch_compress_xof", ca_d_cx, CompressXof, SysV, 1, 0));
    v.push(e("ca_dispatch_xof_many", ca_d_xm, XofMany, SysV, 16, 0));
    v.push(e("ci_dispatch_hash_many", ci_d_hm, HashMany, SysV, 16, 0));
    v.push(e("ci_dispatch_compress_in_place", ci_d_cip, CompressInPlace, SysV, 1, 0));
    v.push(e("ci_dispatch_compress_xof", ci_d_cx, CompressXof, SysV, 1, 0));
    v.push(e("ci_dispatch_xof_many", ci_d_xm, XofMany, SysV, 16, 0));
    // the crate's own kernels (assembly / C / Rust intrinsics, depending on the build flavour) through Platform
    for (lvl, deg, need) in [(Level::Portable, 1usize, 0), (Level::SSE2, 4, 0x01), (Level::SSE41, 4, 0x04), (Level::AVX2, 8, 0x10), (Level::AVX512, 16, 0x60)] {
        for kind in [HashMany, CompressInPlace, CompressXof, XofMany] {
            v.push(KEntry { name: "rust_platform", addr: 0, kind, abi: Rust(lvl), degree: deg, need });
        }
    }
    // appended last (plans name kernels by index): the AVX2 C kernel built with BLAKE3_NO_SSE41
    v.push(e("cn_hash_many_avx2_no_sse41", cn_hm_avx2, HashMany, SysV, 8, 0x10));
    v
}

pub fn table_len() -> usize {
    35 + 8 + 20 + 1
}

struct Sent {
    vals: [u64; 28],
}

fn sentinels(seed: u64) -> Sent {
    let mut r = Rng::new(seed ^ 0x5E47);
    let mut vals = [0u64; 28];
    for v in vals.iter_mut() {
        *v = r.next() | 0x0101_0101_0101_0101;
    }
    Sent { vals }
}

/// call through the trampoline of the ABI; returns Err(detail) when a callee-saved register, rsp or DF is off
unsafe fn tramp_call(abi: Abi, target: usize, args: &[u64; 10], seed: u64) -> Result<u64, String> {
    let s = sentinels(seed);
    let mut out = [0u64; 32];
    // the callee may be entered at any of the four 16-byte-aligned stack positions modulo 64
    let pad = ((seed >> 40) & 3) * 16;
    match abi {
        Abi::SysV => {
            b3v_tramp_sysv(target as *const (), args.as_ptr(), s.vals.as_ptr(), out.as_mut_ptr(), pad);
            let names = ["rbx", "rbp", "r12", "r13", "r14", "r15"];
            for i in 0..6 {
                if out[i] != s.vals[i] {
                    return Err(format!("callee-saved {} = {:#x} after the call, was {:#x}", names[i], out[i], s.vals[i]));
                }
            }
            if out[6] != 0 {
                return Err(format!("stack pointer moved by {} bytes across the call", out[6] as i64));
            }
            if out[7] & (1 << 10) != 0 {
                return Err("direction flag set on return".into());
            }
            Ok(out[8])
        }
        Abi::Win64 => {
            b3v_tramp_win64(target as *const (), args.as_ptr(), s.vals.as_ptr(), out.as_mut_ptr(), pad);
            let names = ["rbx", "rbp", "rdi", "rsi", "r12", "r13", "r14", "r15"];
            for i in 0..8 {
                if out[i] != s.vals[i] {
                    return Err(format!("callee-saved {} = {:#x} after the call, was {:#x}", names[i], out[i], s.vals[i]));
                }
            }
            if out[8] != 0 {
                return Err(format!("stack pointer moved by {} bytes across the call", out[8] as i64));
            }
            if out[9] & (1 << 10) != 0 {
                return Err("direction flag set on return".into());
            }
            for j in 0..10 {
                if out[12 + 2 * j] != s.vals[8 + 2 * j] || out[13 + 2 * j] != s.vals[9 + 2 * j] {
                    return Err(format!("callee-saved xmm{} changed across the call", 6 + j));
                }
            }
            Ok(out[10])
        }
        Abi::Rust(_) => unreachable!(),
    }
}

/// Known finding "asm-tail-overread" (see known_findings.json): in the hand-written AVX2 / AVX-512
/// assembly the 4-wide and 2-wide tail paths of hash_many load a full vector from their first input
/// (AVX2 4-wide: also its third) at the last block and so read 16 (AVX-512 4-wide: 48) bytes past the
/// end of that input; the excess lanes are overwritten before use. While the finding is listed, exactly
/// those inputs get exactly that many readable bytes of slack so that everything else stays strict.
fn known_overread_slack(e: &KEntry, n: usize, i: usize) -> usize {
    if e.kind != KKind::HashMany || !crate::known::active("asm-tail-overread") {
        return 0;
    }
    let asm = e.name.starts_with("ca_") || e.name.starts_with("win_") || (e.name == "rust_platform" && crate::runner::flavour() == "default-asm");
    if !asm {
        return 0;
    }
    let avx512 = e.degree == 16;
    let avx2 = e.degree == 8;
    if !avx2 && !avx512 {
        return 0;
    }
    let mut b = if avx512 { n & !15 } else { n & !7 };
    if avx512 && n & 8 != 0 {
        b += 8;
    }
    if n & 4 != 0 {
        if i == b {
            return if avx512 { 48 } else { 16 };
        }
        if avx2 && i == b + 2 {
            return 16;
        }
        b += 4;
    }
    if n & 2 != 0 && i == b {
        return 16;
    }
    0
}

fn check_canaries(bufs: &[(&str, &GuardBuf)]) -> Result<(), OpErr> {
    for (name, b) in bufs {
        if let Some(off) = b.canary_damage() {
            return viol("canary", format!("byte at offset {} relative to the {}-byte `{}` buffer was written", off, b.len(), name));
        }
    }
    Ok(())
}

pub fn do_kernel(sh: &Arc<Shared>, k: usize, a: &KArgs) -> OpResult {
    let tab = table();
    let Some(e) = tab.get(k) else { return Err(OpErr::Skip) };
    if (crate::cnode::detected_mask() & e.need) != e.need {
        sh.probe("kernel_skipped_cpu_lacks_level");
        return Err(OpErr::Skip);
    }
    if let Abi::Rust(l) = e.abi {
        if platform_of(l).is_none() {
            sh.probe("kernel_skipped_build_lacks_level");
            return Err(OpErr::Skip);
        }
    }
    let mut r = Rng::new(a.seed);
    let pl = |i: u32| place_of(((a.places >> (2 * (i % 16))) & 3) as u8 + ((a.seed >> (8 + i)) as u8 & 0xFC));
    let mut key = GuardBuf::new(32, match pl(0) { Place::Middle(_) => Place::GuardAfter, p => p });
    r.fill(key.as_mut_slice());
    let mut f = Fnv::default();
    let _sut = crate::guard::SutGuard::enter();
    match e.kind {
        KKind::HashMany => {
            let n = a.n.min(2 * e.degree + 1);
            let blocks: usize = if a.blocks16 { 16 } else { 1 };
            if (a.counter as u128) + (n as u128) >= (1u128 << 64) {
                return Err(OpErr::Skip);
            }
            let mut inputs: Vec<GuardBuf> = Vec::new();
            for i in 0..n {
                let mut place = pl(1 + i as u32);
                let slack = known_overread_slack(e, n, i);
                if slack > 0 && place == Place::GuardAfter {
                    place = Place::GuardAfterGap(slack);
                    sh.probe("known_finding_asm_tail_overread_slack_applied");
                }
                let mut b = GuardBuf::new(blocks * 64, place);
                r.fill(b.as_mut_slice());
                inputs.push(b);
            }
            let mut ptrs = GuardBuf::new(n * 8, match pl(20) { Place::Middle(_) => Place::GuardAfter, p => p });
            for (i, b) in inputs.iter().enumerate() {
                ptrs.as_mut_slice()[i * 8..i * 8 + 8].copy_from_slice(&(b.ptr() as u64).to_le_bytes());
            }
            let out = GuardBuf::new(n * 32, pl(21));
            if std::env::var_os("B3SIM_DEBUG").is_some() {
                eprintln!("hash_many {} n={} blocks={} key={:p} ptrs={:p}..{:p} out={:p}..{:p}", e.name, n, blocks, key.ptr(), ptrs.ptr(), unsafe { ptrs.ptr().add(n * 8) }, out.ptr(), unsafe { out.ptr().add(n * 32) });
                for b in &inputs {
                    eprintln!("  input {:p}..{:p}", b.ptr(), unsafe { b.ptr().add(b.len()) });
                }
            }
            match e.abi {
                Abi::Rust(l) => {
                    let p = platform_of(l).unwrap();
                    let kw: [u32; 8] = std::array::from_fn(|i| u32::from_le_bytes(key.as_slice()[4 * i..4 * i + 4].try_into().unwrap()));
                    let inc = if a.incr { blake3::IncrementCounter::Yes } else { blake3::IncrementCounter::No };
                    let outs = unsafe { std::slice::from_raw_parts_mut(out.ptr(), n * 32) };
                    if blocks == 16 {
                        let refs: Vec<&[u8; 1024]> = inputs.iter().map(|b| unsafe { &*(b.ptr() as *const [u8; 1024]) }).collect();
                        crate::sched::quiet(|| p.hash_many(&refs, &kw, a.counter, inc, a.flags, a.fs, a.fe, outs));
                    } else {
                        let refs: Vec<&[u8; 64]> = inputs.iter().map(|b| unsafe { &*(b.ptr() as *const [u8; 64]) }).collect();
                        crate::sched::quiet(|| p.hash_many(&refs, &kw, a.counter, inc, a.flags, a.fs, a.fe, outs));
                    }
                }
                abi => {
                    let args: [u64; 10] = [ptrs.ptr() as u64, n as u64, blocks as u64, key.ptr() as u64, a.counter, a.incr as u64, a.flags as u64, a.fs as u64, a.fe as u64, out.ptr() as u64];
                    if let Err(d) = unsafe { tramp_call(abi, e.addr, &args, a.seed) } {
                        return viol("register-clobber", format!("{}: {}", e.name, d));
                    }
                }
            }
            let mut all: Vec<(&str, &GuardBuf)> = vec![("key", &key), ("input pointers", &ptrs), ("out", &out)];
            for b in &inputs {
                all.push(("input", b));
            }
            check_canaries(&all)?;
            f.bytes(out.as_slice());
            if n == 0 {
                sh.probe("kernel_hash_many_zero_inputs");
            }
            if n % e.degree != 0 && n > e.degree {
                sh.probe("kernel_hash_many_remainder_after_full_batch");
            }
        }
        KKind::CompressInPlace | KKind::CompressXof => {
            let mut block = GuardBuf::new(64, pl(1));
            r.fill(block.as_mut_slice());
            let bl = a.block_len.min(64);
            let out = GuardBuf::new(64, pl(2));
            match e.abi {
                Abi::Rust(l) => {
                    let p = platform_of(l).unwrap();
                    let mut kw: [u32; 8] = std::array::from_fn(|i| u32::from_le_bytes(key.as_slice()[4 * i..4 * i + 4].try_into().unwrap()));
                    let blk = unsafe { &*(block.ptr() as *const [u8; 64]) };
                    if e.kind == KKind::CompressInPlace {
                        crate::sched::quiet(|| p.compress_in_place(&mut kw, blk, bl, a.counter, a.flags));
                        for w in kw {
                            f.u64(w as u64);
                        }
                    } else {
                        let o = crate::sched::quiet(|| p.compress_xof(&kw, blk, bl, a.counter, a.flags));
                        f.bytes(&o);
                    }
                }
                abi => {
                    let args: [u64; 10] = if e.kind == KKind::CompressInPlace {
                        [key.ptr() as u64, block.ptr() as u64, bl as u64, a.counter, a.flags as u64, 0, 0, 0, 0, 0]
                    } else {
                        [key.ptr() as u64, block.ptr() as u64, bl as u64, a.counter, a.flags as u64, out.ptr() as u64, 0, 0, 0, 0]
                    };
                    if let Err(d) = unsafe { tramp_call(abi, e.addr, &args, a.seed) } {
                        return viol("register-clobber", format!("{}: {}", e.name, d));
                    }
                    f.bytes(key.as_slice());
                    f.bytes(out.as_slice());
                }
            }
            check_canaries(&[("cv", &key), ("block", &block), ("out", &out)])?;
        }
        KKind::XofMany => {
            let n = if e.name.contains("dispatch") { a.n.min(33) } else { a.n.clamp(1, 33) };
            if n == 0 {
                sh.probe("kernel_dispatch_xof_many_zero_blocks");
            }
            if (a.counter as u128) + (n as u128) >= (1u128 << 64) {
                return Err(OpErr::Skip);
            }
            let mut block = GuardBuf::new(64, pl(1));
            r.fill(block.as_mut_slice());
            let bl = a.block_len.min(64);
            let out = GuardBuf::new(64 * n, pl(2));
            match e.abi {
                Abi::Rust(l) => {
                    let p = platform_of(l).unwrap();
                    let kw: [u32; 8] = std::array::from_fn(|i| u32::from_le_bytes(key.as_slice()[4 * i..4 * i + 4].try_into().unwrap()));
                    let blk = unsafe { &*(block.ptr() as *const [u8; 64]) };
                    let outs = unsafe { std::slice::from_raw_parts_mut(out.ptr(), n * 64) };
                    crate::sched::quiet(|| p.xof_many(&kw, blk, bl, a.counter, a.flags, outs));
                }
                abi => {
                    let args: [u64; 10] = [key.ptr() as u64, block.ptr() as u64, bl as u64, a.counter, a.flags as u64, out.ptr() as u64, n as u64, 0, 0, 0];
                    if let Err(d) = unsafe { tramp_call(abi, e.addr, &args, a.seed) } {
                        return viol("register-clobber", format!("{}: {}", e.name, d));
                    }
                }
            }
            check_canaries(&[("cv", &key), ("block", &block), ("out", &out)])?;
            f.bytes(out.as_slice());
            if n % 16 != 0 && n > 16 {
                sh.probe("kernel_xof_many_tail_after_full_batch");
            }
        }
    }
    sh.probe(match e.abi {
        Abi::SysV => "kernel_call_sysv_trampoline",
        Abi::Win64 => "kernel_call_win64_trampoline",
        Abi::Rust(_) => "kernel_call_rust_platform",
    });
    sh.shape(Fnv::of(&[9, k as u8, a.n.min(40) as u8, a.blocks16 as u8, (a.places & 0xff) as u8]));
    Ok(f.0)
}
