//! The C library as a node: c/blake3.c + dispatcher + all kernels, built twice
//! by build.rs (ca_ = assembly kernels, ci_ = C intrinsics kernels) and driven
//! only through the public blake3_hasher_* functions.

use crate::exec::*;
use crate::model::MMode;
use crate::ops::{ctx_string, d, first_diff, hx, key32};
use crate::plan::*;
use crate::rng::Fnv;
use crate::sched;
use blake3::hazmat::HasherExt;
use std::os::raw::{c_char, c_int, c_void};
use std::sync::atomic::AtomicUsize;
use std::sync::Arc;

#[repr(C)]
#[derive(Clone, Copy)]
pub struct ChunkStateC {
    pub cv: [u32; 8],
    pub chunk_counter: u64,
    pub buf: [u8; 64],
    pub buf_len: u8,
    pub blocks_compressed: u8,
    pub flags: u8,
}

#[repr(C)]
#[derive(Clone, Copy)]
pub struct HasherC {
    pub key: [u32; 8],
    pub chunk: ChunkStateC,
    pub cv_stack_len: u8,
    pub cv_stack: [u8; 55 * 32],
}

pub const C_UNDEFINED: c_int = 1 << 30;
pub const C_ALL: c_int = 0x7f;

macro_rules! flavour {
    ($modname:ident, $pfx:literal) => {
        pub mod $modname {
            use super::*;
            extern "C" {
                #[link_name = concat!($pfx, "_blake3_hasher_init")]
                pub fn init(h: *mut HasherC);
                #[link_name = concat!($pfx, "_blake3_hasher_init_keyed")]
                pub fn init_keyed(h: *mut HasherC, key: *const u8);
                #[link_name = concat!($pfx, "_blake3_hasher_init_derive_key")]
                pub fn init_derive_key(h: *mut HasherC, ctx: *const c_char);
                #[link_name = concat!($pfx, "_blake3_hasher_init_derive_key_raw")]
                pub fn init_derive_key_raw(h: *mut HasherC, ctx: *const c_void, len: usize);
                #[link_name = concat!($pfx, "_blake3_hasher_update")]
                pub fn update(h: *mut HasherC, input: *const c_void, len: usize);
                #[link_name = concat!($pfx, "_blake3_hasher_update_tbb")]
                pub fn update_tbb(h: *mut HasherC, input: *const c_void, len: usize);
                #[link_name = concat!($pfx, "_blake3_hasher_finalize")]
                pub fn finalize(h: *const HasherC, out: *mut u8, out_len: usize);
                #[link_name = concat!($pfx, "_blake3_hasher_finalize_seek")]
                pub fn finalize_seek(h: *const HasherC, seek: u64, out: *mut u8, out_len: usize);
                #[link_name = concat!($pfx, "_blake3_hasher_reset")]
                pub fn reset(h: *mut HasherC);
                #[link_name = concat!($pfx, "_blake3_compress_subtree_wide")]
                pub fn compress_subtree_wide(input: *const u8, len: usize, key: *const u32, counter: u64, flags: u8, out: *mut u8, use_tbb: bool) -> usize;
                #[link_name = concat!($pfx, "_g_cpu_features")]
                pub static mut g_cpu_features: c_int;
                #[link_name = concat!($pfx, "_get_cpu_features")]
                pub fn get_cpu_features() -> c_int;
                #[link_name = concat!($pfx, "_blake3_verif_yield_hook")]
                pub static mut yield_hook: Option<extern "C" fn(c_int)>;
            }
        }
    };
}
flavour!(ca, "ca");
flavour!(ci, "ci");

struct SendPtr<T>(T);
unsafe impl<T> Send for SendPtr<T> {}

macro_rules! tbb_seam {
    ($name:ident, $m:ident) => {
        /// The TBB link seam (blake3_compress_subtree_wide_join_tbb), implemented by the simulator.
        #[no_mangle]
        pub unsafe extern "C" fn $name(
            key: *const u32,
            flags: u8,
            use_tbb: bool,
            l_input: *const u8,
            l_len: usize,
            l_counter: u64,
            l_cvs: *mut u8,
            l_n: *mut usize,
            r_input: *const u8,
            r_len: usize,
            r_counter: u64,
            r_cvs: *mut u8,
            r_n: *mut usize,
        ) {
            let l = SendPtr((key, l_input, l_cvs, l_n));
            let r = SendPtr((key, r_input, r_cvs, r_n));
            let mut left = move || {
                let l = &l;
                unsafe { *l.0 .3 = $m::compress_subtree_wide(l.0 .1, l_len, l.0 .0, l_counter, flags, l.0 .2, use_tbb) };
            };
            let mut right = move || {
                let r = &r;
                unsafe { *r.0 .3 = $m::compress_subtree_wide(r.0 .1, r_len, r.0 .0, r_counter, flags, r.0 .2, use_tbb) };
            };
            if !use_tbb {
                left();
                right();
            } else {
                run_split(&mut left, &mut right);
            }
        }
    };
}
tbb_seam!(ca_blake3_compress_subtree_wide_join_tbb, ca);
tbb_seam!(ci_blake3_compress_subtree_wide_join_tbb, ci);

extern "C" fn c_yield(site: c_int) {
    sched::hook_yield(site as u32);
}

static DETECTED: std::sync::OnceLock<c_int> = std::sync::OnceLock::new();

/// real CPU feature mask as the C dispatcher detects it
pub fn detected_mask() -> c_int {
    *DETECTED.get_or_init(|| unsafe {
        let saved = std::ptr::read_volatile(&raw const ca::g_cpu_features);
        std::ptr::write_volatile(&raw mut ca::g_cpu_features, C_UNDEFINED);
        let m = ca::get_cpu_features();
        std::ptr::write_volatile(&raw mut ca::g_cpu_features, saved);
        m
    })
}

pub fn install_c_hooks() {
    unsafe {
        std::ptr::write_volatile(&raw mut ca::yield_hook, Some(c_yield));
        std::ptr::write_volatile(&raw mut ci::yield_hook, Some(c_yield));
    }
    let _ = detected_mask();
}

pub fn set_mask(mask: c_int) {
    unsafe {
        std::ptr::write_volatile(&raw mut ca::g_cpu_features, mask);
        std::ptr::write_volatile(&raw mut ci::g_cpu_features, mask);
    }
}

pub fn current_masks() -> (c_int, c_int) {
    unsafe { (std::ptr::read_volatile(&raw const ca::g_cpu_features), std::ptr::read_volatile(&raw const ci::g_cpu_features)) }
}

pub struct CSlot {
    pub h: Box<HasherC>,
    pub flavour: u8,
    pub mode: MMode,
    pub absorbed: Vec<u8>,
}

fn hasher_bytes(h: &HasherC) -> Vec<u8> {
    // only the defined fields (padding excluded): key, chunk fields, stack length, live stack entries
    let mut v = Vec::with_capacity(200);
    for w in h.key.iter().chain(h.chunk.cv.iter()) {
        v.extend_from_slice(&w.to_le_bytes());
    }
    v.extend_from_slice(&h.chunk.chunk_counter.to_le_bytes());
    v.extend_from_slice(&h.chunk.buf);
    v.push(h.chunk.buf_len);
    v.push(h.chunk.blocks_compressed);
    v.push(h.chunk.flags);
    v.push(h.cv_stack_len);
    v.extend_from_slice(&h.cv_stack[..(h.cv_stack_len as usize).min(55) * 32]);
    v
}

fn zeroed() -> Box<HasherC> {
    // 0xEE fill: a field the initialiser forgets stays visibly uninitialised
    let mut b: Box<HasherC> = unsafe { Box::new(std::mem::zeroed()) };
    unsafe { std::ptr::write_bytes(&mut *b as *mut HasherC as *mut u8, 0xEE, std::mem::size_of::<HasherC>()) };
    b
}

unsafe fn c_init(fl: u8, h: *mut HasherC, m: &MMode, raw: bool) -> bool {
    match (fl, m) {
        (0, MMode::Hash) => ca::init(h),
        (_, MMode::Hash) => ci::init(h),
        (0, MMode::Keyed(k)) => ca::init_keyed(h, k.as_ptr()),
        (_, MMode::Keyed(k)) => ci::init_keyed(h, k.as_ptr()),
        (f, MMode::Derive(c)) => {
            if raw || c.contains(&0) {
                // any bytes, embedded NUL included; a dangling pointer for an empty context
                thread_local! {
                    static RBUF: std::cell::RefCell<Vec<u8>> = std::cell::RefCell::new(Vec::with_capacity(16384));
                }
                if c.is_empty() {
                    let p = std::ptr::NonNull::<u8>::dangling().as_ptr() as *const c_void;
                    if f == 0 {
                        ca::init_derive_key_raw(h, p, 0)
                    } else {
                        ci::init_derive_key_raw(h, p, 0)
                    }
                } else {
                    // reused address, a decoy of the same length first (see stable.rs)
                    RBUF.with(|b| {
                        let mut b = b.borrow_mut();
                        b.clear();
                        b.extend_from_slice(c);
                        b[0] ^= 1;
                        let mut scratch: Box<HasherC> = zeroed();
                        if f == 0 {
                            ca::init_derive_key_raw(&mut *scratch, b.as_ptr() as *const c_void, c.len())
                        } else {
                            ci::init_derive_key_raw(&mut *scratch, b.as_ptr() as *const c_void, c.len())
                        }
                        b[0] ^= 1;
                        if f == 0 {
                            ca::init_derive_key_raw(h, b.as_ptr() as *const c_void, c.len())
                        } else {
                            ci::init_derive_key_raw(h, b.as_ptr() as *const c_void, c.len())
                        }
                    });
                }
            } else {
                // the C string lives in one reused per-thread buffer, and a different context of the same length is
                // used at the same address just before (see stable.rs): the key depends on the bytes only
                thread_local! {
                    static CBUF: std::cell::RefCell<Vec<u8>> = std::cell::RefCell::new(Vec::with_capacity(16384));
                }
                CBUF.with(|b| {
                    let mut b = b.borrow_mut();
                    let mut decoy = c.clone();
                    if let Some(x) = decoy.iter_mut().find(|x| x.is_ascii_alphanumeric() || **x == b' ' || **x == b'-') {
                        *x = if *x == b'q' { b'r' } else { b'q' };
                        b.clear();
                        b.extend_from_slice(&decoy);
                        b.push(0);
                        let mut scratch: Box<HasherC> = zeroed();
                        if f == 0 {
                            ca::init_derive_key(&mut *scratch, b.as_ptr() as *const c_char)
                        } else {
                            ci::init_derive_key(&mut *scratch, b.as_ptr() as *const c_char)
                        }
                    }
                    b.clear();
                    b.extend_from_slice(c);
                    b.push(0);
                    if f == 0 {
                        ca::init_derive_key(h, b.as_ptr() as *const c_char)
                    } else {
                        ci::init_derive_key(h, b.as_ptr() as *const c_char)
                    }
                });
            }
        }
        (_, MMode::ContextKey(_)) => return false,
    }
    true
}

/// C07: run `f` on a copy of the hasher object that sits flush against an inaccessible page
/// (the hasher object is the one thing besides the output the library may write)
fn with_guarded_hasher(guard: bool, h: &mut HasherC, place: u8, f: impl FnOnce(*mut HasherC)) -> Result<(), OpErr> {
    if !guard {
        f(h as *mut HasherC);
        return Ok(());
    }
    let sz = std::mem::size_of::<HasherC>();
    let p = if place % 2 == 0 { crate::guard::Place::GuardAfter } else { crate::guard::Place::GuardBefore };
    let gb = crate::guard::GuardBuf::new(sz, p);
    unsafe {
        std::ptr::copy_nonoverlapping(h as *const HasherC as *const u8, gb.ptr(), sz);
        f(gb.ptr() as *mut HasherC);
        std::ptr::copy_nonoverlapping(gb.ptr(), h as *mut HasherC as *mut u8, sz);
    }
    if let Some(off) = gb.canary_damage() {
        return viol("canary", format!("byte at offset {} relative to the blake3_hasher object was written", off));
    }
    Ok(())
}

macro_rules! get {
    ($local:expr, $slot:expr) => {
        match $local.slots.get_mut(&$slot) {
            Some(Slot::C(x)) => x,
            _ => return Err(OpErr::Skip),
        }
    };
}

pub fn do_cop(sh: &Arc<Shared>, local: &mut TaskLocal, op: &Op) -> OpResult {
    match op {
        Op::CSetMask { mask } => {
            let det = detected_mask();
            let m = if *mask == u32::MAX { C_UNDEFINED } else { (*mask as c_int) & det };
            set_mask(m);
            if m == C_UNDEFINED {
                sh.probe("c_feature_cache_undefined_at_start");
            } else if m != det {
                sh.probe("c_feature_mask_restricted");
            }
            if m != C_UNDEFINED && (m & 0x40) != 0 && (m & 0x20) == 0 {
                sh.probe("c_mask_avx512vl_without_f");
            }
            Ok(m as u64)
        }
        Op::CInit { slot, flavour, mode, raw } => {
            let m = match mode {
                Mode::Hash => MMode::Hash,
                Mode::Keyed { key } => MMode::Keyed(key32(sh, *key)?),
                Mode::Derive { ctx } | Mode::ContextKey { ctx } => MMode::Derive(ctx_string(sh, *ctx)?.into_bytes()),
            };
            let fl = *flavour % 2;
            let mut h = zeroed();
            if !unsafe { c_init(fl, &mut *h, &m, *raw) } {
                return Err(OpErr::Skip);
            }
            // the two derive-key initialisers agree (NUL-free contexts only: a C string cannot hold NUL)
            if let MMode::Derive(c) = &m {
                if !c.contains(&0) {
                    let mut h2 = zeroed();
                    unsafe { c_init(fl, &mut *h2, &m, !*raw) };
                    if hasher_bytes(&h) != hasher_bytes(&h2) {
                        return viol("state-diverged", "init_derive_key and init_derive_key_raw leave different states".into());
                    }
                }
                if c.len() > 1024 {
                    sh.probe("c_context_longer_than_a_chunk");
                }
            }
            let det = hasher_bytes(&h);
            if det.len() != 32 + 32 + 8 + 64 + 4 || h.cv_stack_len != 0 || h.chunk.buf_len != 0 || h.chunk.blocks_compressed != 0 || h.chunk.chunk_counter != 0 || h.chunk.buf != [0u8; 64] {
                return viol("state-diverged", "freshly initialised blake3_hasher has non-initial fields".into());
            }
            local.slots.insert(*slot, Slot::C(Box::new(CSlot { h, flavour: fl, mode: m, absorbed: Vec::new() })));
            Ok(Fnv::of(&det))
        }
        Op::CUpdate { c, data, off, len, tbb } => {
            let bytes = d(sh, *data, *off, *len)?;
            let cs = get!(local, *c);
            let before = if bytes.is_empty() { Some(hasher_bytes(&cs.h)) } else { None };
            let guard = sh.plan.cfg.guard_alloc;
            let gin;
            let bytes: &[u8] = if guard && !bytes.is_empty() {
                gin = crate::guard::GuardBuf::with_bytes(bytes, crate::guard::place_of((*off as u8) ^ (*len as u8).rotate_left(5)));
                unsafe { std::slice::from_raw_parts(gin.ptr(), gin.len()) }
            } else {
                bytes
            };
            let p = if bytes.is_empty() { std::ptr::NonNull::<u8>::dangling().as_ptr() as *const c_void } else { bytes.as_ptr() as *const c_void };
            let fl = cs.flavour;
            let hp: *mut HasherC = &mut *cs.h;
            match tbb {
                None => with_guarded_hasher(guard, &mut cs.h, *len as u8, |hp| unsafe {
                    if fl == 0 {
                        ca::update(hp, p, bytes.len())
                    } else {
                        ci::update(hp, p, bytes.len())
                    }
                })?,
                Some(policy) => {
                    set_joinctl(Some(JoinCtl {
                        policy: policy.clone(),
                        counter: Arc::new(AtomicUsize::new(0)),
                        width: sh.plan.cfg.pool_width.max(1) as usize,
                        shared: sh.clone(),
                    }));
                    unsafe {
                        if cs.flavour == 0 {
                            ca::update_tbb(hp, p, bytes.len())
                        } else {
                            ci::update_tbb(hp, p, bytes.len())
                        }
                    }
                    set_joinctl(None);
                    sh.probe("c_update_tbb");
                }
            }
            if let Some(b) = before {
                if hasher_bytes(&cs.h) != b {
                    return viol("state-diverged", "zero-length blake3_hasher_update changed the hasher".into());
                }
                sh.probe("c_zero_length_update_dangling_ptr");
            }
            cs.absorbed.extend_from_slice(bytes);
            sh.stats.lock().unwrap().bytes += bytes.len() as u64;
            let mut f = Fnv::default();
            f.u64(cs.absorbed.len() as u64);
            sh.shape(Fnv::of(&[cs.flavour, (cs.absorbed.len() % 1024 != 0) as u8, ((cs.absorbed.len() / 1024) as u64).count_ones() as u8, tbb.is_some() as u8, 77]));
            Ok(f.0)
        }
        Op::CUpdateHuge { c, extra } => {
            let cs = get!(local, *c);
            let n: usize = (1usize << 32) + *extra as usize;
            const ALIGN: usize = 2 << 20;
            let fl = cs.flavour;
            let mut got = [0u8; 32];
            // [inaccessible page][n zero bytes, read-only, never written: the kernel's zero pages][inaccessible page];
            // the input starts right behind the first inaccessible page or ends right before the second
            unsafe {
                let span = (n + 4095) / 4096 * 4096;
                let base = libc::mmap(std::ptr::null_mut(), span + 2 * ALIGN + 8192, libc::PROT_NONE, libc::MAP_PRIVATE | libc::MAP_ANONYMOUS | libc::MAP_NORESERVE, -1, 0);
                if base == libc::MAP_FAILED {
                    return Err(OpErr::Harness("address space for the huge input".into()));
                }
                let start = ((base as usize + 4096 + ALIGN - 1) / ALIGN * ALIGN) as *mut u8;
                if libc::mprotect(start as *mut libc::c_void, span, libc::PROT_READ) != 0 {
                    libc::munmap(base, span + 2 * ALIGN + 8192);
                    return Err(OpErr::Harness("mprotect of the huge input".into()));
                }
                libc::madvise(start as *mut libc::c_void, span, libc::MADV_HUGEPAGE);
                let inp = if extra % 2 == 0 { start } else { start.add(span - n) };
                let hp: *mut HasherC = &mut *cs.h;
                {
                    let _g = crate::guard::SutGuard::enter();
                    if fl == 0 {
                        ca::update(hp, inp as *const c_void, n);
                        ca::finalize(hp as *const HasherC, got.as_mut_ptr(), 32);
                    } else {
                        ci::update(hp, inp as *const c_void, n);
                        ci::finalize(hp as *const HasherC, got.as_mut_ptr(), 32);
                    }
                }
                libc::munmap(base, span + 2 * ALIGN + 8192);
            }
            // the Rust crate on the same bytes, in pieces
            let want = sched::quiet(|| {
                let mut o = match &cs.mode {
                    MMode::Hash => blake3::Hasher::new(),
                    MMode::Keyed(k) => blake3::Hasher::new_keyed(k),
                    MMode::Derive(c) => match std::str::from_utf8(c) {
                        Ok(s) => blake3::Hasher::new_derive_key(s),
                        Err(_) => blake3::Hasher::new_from_context_key(&crate::model::context_key(c)),
                    },
                    MMode::ContextKey(k) => blake3::Hasher::new_from_context_key(k),
                };
                o.update(&cs.absorbed);
                let zeros = vec![0u8; 4 << 20];
                let mut left = n;
                while left > 0 {
                    let k = left.min(zeros.len());
                    o.update(&zeros[..k]);
                    left -= k;
                }
                *o.finalize().as_bytes()
            });
            local.slots.remove(c);
            if got != want {
                return viol("result-mismatch", format!("one blake3_hasher_update call with {n} bytes: digest {} differs from the Rust crate fed the same bytes in pieces ({})", hx(&got), hx(&want)));
            }
            sh.probe("c_update_len_above_2^32");
            Ok(Fnv::of(&got))
        }
        Op::CFinalizeHuge { c, seek, extra } => {
            let cs = get!(local, *c);
            let n: usize = (1usize << 32) + *extra as usize;
            let pos = seek.unwrap_or(0);
            if (pos as u128) + (n as u128) > u64::MAX as u128 {
                return Err(OpErr::Skip);
            }
            const WIN: usize = 2 << 20;
            let total = (n + WIN - 1) / WIN * WIN;
            let before = hasher_bytes(&cs.h);
            let fl = cs.flavour;
            // reserve [total bytes][one inaccessible page], then lay the same 2 MiB of memory over the whole range
            let res = unsafe {
                let fd = libc::memfd_create(b"b3sim-window\0".as_ptr() as *const libc::c_char, 0);
                if fd < 0 || libc::ftruncate(fd, WIN as libc::off_t) != 0 {
                    return Err(OpErr::Harness("memfd for the huge output window".into()));
                }
                let base = libc::mmap(std::ptr::null_mut(), total + 4096, libc::PROT_NONE, libc::MAP_PRIVATE | libc::MAP_ANONYMOUS | libc::MAP_NORESERVE, -1, 0);
                if base == libc::MAP_FAILED {
                    libc::close(fd);
                    return Err(OpErr::Harness("address space for the huge output window".into()));
                }
                let mut ok = true;
                let mut off = 0usize;
                while off < total {
                    let p = libc::mmap((base as *mut u8).add(off) as *mut libc::c_void, WIN, libc::PROT_READ | libc::PROT_WRITE, libc::MAP_SHARED | libc::MAP_FIXED, fd, 0);
                    if p == libc::MAP_FAILED {
                        ok = false;
                        break;
                    }
                    off += WIN;
                }
                let r = if ok {
                    // the buffer ends flush against the inaccessible page
                    let outp = (base as *mut u8).add(total - n);
                    let hp = &*cs.h as *const HasherC;
                    let _g = crate::guard::SutGuard::enter();
                    match (fl, seek) {
                        (0, None) => ca::finalize(hp, outp, n),
                        (_, None) => ci::finalize(hp, outp, n),
                        (0, Some(s)) => ca::finalize_seek(hp, *s, outp, n),
                        (_, Some(s)) => ci::finalize_seek(hp, *s, outp, n),
                    }
                    Ok(())
                } else {
                    Err(OpErr::Harness("mapping the huge output window".into()))
                };
                libc::munmap(base, total + 4096);
                libc::close(fd);
                r
            };
            res?;
            if hasher_bytes(&cs.h) != before {
                return viol("state-diverged", "blake3_hasher_finalize changed the hasher".into());
            }
            sh.probe("c_out_len_above_2^32");
            Ok(n as u64)
        }
        Op::CFinalize { c, seek, out_len } => {
            let cs = get!(local, *c);
            let n = *out_len;
            let pos = seek.unwrap_or(0);
            if (pos as u128) + (n as u128) > u64::MAX as u128 {
                return Err(OpErr::Skip);
            }
            let before = hasher_bytes(&cs.h);
            // canaries on both sides: exactly out_len bytes may be written
            const CAN: usize = 64;
            let guard = sh.plan.cfg.guard_alloc;
            let mut buf = vec![0xC7u8; n + 2 * CAN];
            let gout = if guard && n > 0 { Some(crate::guard::GuardBuf::new(n, crate::guard::place_of((n as u8) ^ (pos as u8).rotate_left(3)))) } else { None };
            let outp = if n == 0 {
                std::ptr::NonNull::<u8>::dangling().as_ptr()
            } else if let Some(g) = &gout {
                g.ptr()
            } else {
                unsafe { buf.as_mut_ptr().add(CAN) }
            };
            let fl = cs.flavour;
            with_guarded_hasher(guard, &mut cs.h, n as u8, |hp| unsafe {
                let hp = hp as *const HasherC;
                match (fl, seek) {
                    (0, None) => ca::finalize(hp, outp, n),
                    (_, None) => ci::finalize(hp, outp, n),
                    (0, Some(s)) => ca::finalize_seek(hp, *s, outp, n),
                    (_, Some(s)) => ci::finalize_seek(hp, *s, outp, n),
                }
            })?;
            if let Some(g) = &gout {
                if let Some(off) = g.canary_damage() {
                    return viol("canary", format!("finalize wrote at offset {off} relative to its {n}-byte output buffer"));
                }
                buf[CAN..CAN + n].copy_from_slice(g.as_slice());
            }
            if buf[..CAN].iter().any(|b| *b != 0xC7) || buf[CAN + n..].iter().any(|b| *b != 0xC7) {
                return viol("canary", format!("finalize wrote outside its {n}-byte output buffer"));
            }
            if hasher_bytes(&cs.h) != before {
                return viol("state-diverged", "blake3_hasher_finalize changed the hasher".into());
            }
            let got = &buf[CAN..CAN + n];
            let want = cs.mode.root(&cs.absorbed).stream(pos, n);
            if got != &want[..] {
                let i = first_diff(got, &want);
                return viol(
                    "result-mismatch",
                    format!("C output differs from spec at byte {i} of {n} (seek {pos}, {} bytes absorbed, flavour {}): got {} want {}", cs.absorbed.len(), cs.flavour, hx(&got[i..]), hx(&want[i..])),
                );
            }
            // ... and the Rust crate on the same history
            if let MMode::Derive(c) = &cs.mode {
                if std::str::from_utf8(c).is_err() {
                    return Ok(Fnv::of(got));
                }
            }
            let tw = crate::ops::twin_xof(&cs.mode, &cs.absorbed, pos, n);
            if got != &tw[..] {
                let i = first_diff(got, &tw);
                return viol("result-mismatch", format!("C output differs from the Rust crate at byte {i} (seek {pos}, n {n})"));
            }
            if n == 0 {
                sh.probe("c_zero_length_output");
            }
            if pos / 64 >= 1 << 32 {
                sh.probe("c_seek_counter_above_2^32");
            }
            if n > 0 && pos / 64 < (1 << 32) && (pos + n as u64 - 1) / 64 >= (1 << 32) {
                sh.probe("c_output_crosses_counter_2^32");
            }
            if pos % 64 != 0 && n > 128 {
                sh.probe("c_unaligned_seek_multi_block");
            }
            sh.shape(Fnv::of(&[cs.flavour, (pos % 64 != 0) as u8, (n as u64).min(200) as u8 / 32, (pos / 64 >= 1 << 32) as u8, 78]));
            Ok(Fnv::of(got))
        }
        Op::CReset { c } => {
            let cs = get!(local, *c);
            let hp: *mut HasherC = &mut *cs.h;
            unsafe {
                if cs.flavour == 0 {
                    ca::reset(hp)
                } else {
                    ci::reset(hp)
                }
            }
            let mut fresh = zeroed();
            unsafe { c_init(cs.flavour, &mut *fresh, &cs.mode, true) };
            if hasher_bytes(&cs.h) != hasher_bytes(&fresh) {
                return viol("state-diverged", "blake3_hasher_reset does not restore the freshly initialised state".into());
            }
            if cs.absorbed.len() % 64 != 0 {
                sh.probe("c_reset_with_partial_block");
            }
            cs.absorbed.clear();
            Ok(0x5e5e7)
        }
        Op::CCopy { c, new } => {
            let cs = get!(local, *c);
            // struct copy: how C callers clone a hasher
            let copy = CSlot { h: Box::new(*cs.h), flavour: cs.flavour, mode: cs.mode.clone(), absorbed: cs.absorbed.clone() };
            local.slots.insert(*new, Slot::C(Box::new(copy)));
            Ok(0xc0b7)
        }
        _ => Err(OpErr::Skip),
    }
}
