//! The C library as a node (c/blake3.c + dispatcher + kernels).

use crate::exec::*;
use crate::plan::*;
use std::sync::Arc;

pub struct CSlot {}

pub fn do_cop(_sh: &Arc<Shared>, _local: &mut TaskLocal, _op: &Op) -> OpResult {
    Err(OpErr::Skip)
}
