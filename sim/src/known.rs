//! Known findings: /verif/known_findings.json is committed and never written
//! at run time. An entry with status "known" whose signature matches the
//! shrunk replay turns the violation into a KNOWN-FINDING line; "fixed"
//! entries suppress nothing.

use crate::plan::ReplayFile;

#[derive(serde::Deserialize)]
struct Entry {
    /// stable identifier of a known finding that the harness handles at its call site
    #[serde(default)]
    id: String,
    /// replay file (relative to /verif) that demonstrates a known finding on the unchanged tree
    #[serde(default)]
    replay: String,
    status: String,
    property: String,
    /// all of these must hold on the shrunk replay
    class: String,
    #[serde(default)]
    op_kind: String,
    /// op kinds that must occur in the shrunk plan (the history that fails)
    #[serde(default)]
    requires_ops: Vec<String>,
    #[serde(default)]
    detail_contains: String,
    what: String,
}

#[derive(serde::Deserialize)]
struct FileFmt {
    findings: Vec<Entry>,
}

pub fn matches(rf: &ReplayFile) -> Option<String> {
    let p = crate::runner::verif_dir().join("known_findings.json");
    let txt = std::fs::read_to_string(p).ok()?;
    let f: FileFmt = serde_json::from_str(&txt).ok()?;
    for e in f.findings {
        if e.status != "known" || e.property != rf.property || e.class != rf.violation.class {
            continue;
        }
        // findings handled at their call site (slack + demonstration replay) never suppress a violation here
        if !e.id.is_empty() || !e.replay.is_empty() {
            continue;
        }
        if !e.op_kind.is_empty() && e.op_kind != rf.violation.op_kind {
            continue;
        }
        if !e.detail_contains.is_empty() && !rf.violation.detail.contains(&e.detail_contains) {
            continue;
        }
        let kinds: Vec<&str> = rf.plan.tasks.iter().flat_map(|t| t.ops.iter().map(|o| o.kind())).collect();
        if e.requires_ops.iter().all(|k| kinds.contains(&k.as_str())) {
            return Some(e.what);
        }
    }
    None
}


fn load() -> Vec<Entry> {
    let p = crate::runner::verif_dir().join("known_findings.json");
    std::fs::read_to_string(p).ok().and_then(|t| serde_json::from_str::<FileFmt>(&t).ok()).map(|f| f.findings).unwrap_or_default()
}

/// is the known finding with this id listed (status "known")?
pub fn active(id: &str) -> bool {
    use std::sync::OnceLock;
    static IDS: OnceLock<Vec<String>> = OnceLock::new();
    if std::env::var_os("B3SIM_NO_KNOWN_SLACK").is_some() {
        return false;
    }
    IDS.get_or_init(|| load().into_iter().filter(|e| e.status == "known" && !e.id.is_empty()).map(|e| e.id).collect()).iter().any(|x| x == id)
}

/// (what, replay path) of the listed known findings of a property that carry a demonstration replay
pub fn demonstrations(prop: &str) -> Vec<(String, String)> {
    load().into_iter().filter(|e| e.status == "known" && e.property == prop && !e.replay.is_empty()).map(|e| (e.what, e.replay)).collect()
}
