//! Known findings: /verif/known_findings.json is committed and never written
//! at run time. An entry with status "known" whose signature matches the
//! shrunk replay turns the violation into a KNOWN-FINDING line; "fixed"
//! entries suppress nothing.

use crate::plan::ReplayFile;

#[derive(serde::Deserialize)]
struct Entry {
    status: String,
    property: String,
    /// all of these must hold on the shrunk replay
    class: String,
    #[serde(default)]
    op_kind: String,
    /// op kinds that must occur in the shrunk plan (the history that fails)
    #[serde(default)]
    requires_ops: Vec<String>,
    #[serde(default)]
    detail_contains: String,
    what: String,
}

#[derive(serde::Deserialize)]
struct FileFmt {
    findings: Vec<Entry>,
}

pub fn matches(rf: &ReplayFile) -> Option<String> {
    let p = crate::runner::verif_dir().join("known_findings.json");
    let txt = std::fs::read_to_string(p).ok()?;
    let f: FileFmt = serde_json::from_str(&txt).ok()?;
    for e in f.findings {
        if e.status != "known" || e.property != rf.property || e.class != rf.violation.class {
            continue;
        }
        if !e.op_kind.is_empty() && e.op_kind != rf.violation.op_kind {
            continue;
        }
        if !e.detail_contains.is_empty() && !rf.violation.detail.contains(&e.detail_contains) {
            continue;
        }
        let kinds: Vec<&str> = rf.plan.tasks.iter().flat_map(|t| t.ops.iter().map(|o| o.kind())).collect();
        if e.requires_ops.iter().all(|k| kinds.contains(&k.as_str())) {
            return Some(e.what);
        }
    }
    None
}
