//! b3sum as a simulated process: the real binary runs in a per-run sandbox
//! directory whose state (files, checkfiles) the plan mutates between
//! invocations; plus in-process access to the checkfile parser (C13) and the
//! special-file half of C11.

#[cfg(not(feature = "par"))]
use crate::lean::LeanHasher;
use crate::exec::*;
use crate::model::{hex, unhex, MMode};
use crate::ops::{ctx_string, first_diff};
use crate::plan::*;
use crate::rng::Fnv;
use std::collections::BTreeMap;
use std::io::Write;
use std::os::unix::ffi::{OsStrExt, OsStringExt};
use std::sync::Arc;

#[derive(Clone, Debug)]
pub enum FsNode {
    File(Vec<u8>),
    Dir,
    Missing,
}

#[derive(Default)]
pub struct CliState {
    pub fs: BTreeMap<Vec<u8>, FsNode>,
    pub checkfiles: BTreeMap<usize, Vec<u8>>,
}

pub fn b3sum_bin() -> Option<std::path::PathBuf> {
    std::env::var_os("B3SUM_BIN").map(Into::into).filter(|p: &std::path::PathBuf| p.exists())
}

// ---------------------------------------------------------------------------------------------
// the documented checkfile format, written down independently of b3sum's code

#[derive(Debug, PartialEq, Clone)]
pub struct ModelLine {
    pub path: String,
    pub hash: [u8; 32],
    /// what b3sum prints before ": OK" / ": FAILED"
    pub display: String,
}

pub fn model_unescape(s: &str) -> Option<String> {
    let mut out = String::new();
    let mut it = s.chars();
    while let Some(c) = it.next() {
        if c == '\\' {
            match it.next() {
                Some('n') => out.push('\n'),
                Some('r') => out.push('\r'),
                Some('\\') => out.push('\\'),
                _ => return None, // invalid or dangling escape
            }
        } else {
            out.push(c);
        }
    }
    Some(out)
}

pub fn model_parse(line: &str) -> Option<ModelLine> {
    let line = line.trim_end_matches(['\r', '\n']);
    if line.is_empty() {
        return None;
    }
    let (escaped, rest) = match line.strip_prefix('\\') {
        Some(r) => (true, r),
        None => (false, line),
    };
    // a plain line starts with 64 hex digits, so the two forms are told apart by their first characters
    let (hash_hex, file_str) = if let Some(after) = rest.strip_prefix("BLAKE3 (") {
        let i = after.rfind(") = ")?;
        (&after[i + 4..], &after[..i])
    } else {
        let i = rest.find("  ")?;
        (&rest[..i], &rest[i + 2..])
    };
    if hash_hex.len() != 64 || !hash_hex.bytes().all(|b| b.is_ascii_digit() || (b'a'..=b'f').contains(&b)) {
        return None;
    }
    let mut hash = [0u8; 32];
    hash.copy_from_slice(&unhex(hash_hex));
    let path = if escaped { model_unescape(file_str)? } else { file_str.to_string() };
    if path.is_empty() || path.contains('\0') || path.contains('\u{FFFD}') {
        return None;
    }
    let display = if escaped { format!("\\{}", file_str) } else { file_str.to_string() };
    Some(ModelLine { path, hash, display })
}

/// what b3sum prints for a path: (text, is_escaped)
pub fn model_path_text(path: &[u8]) -> (String, bool) {
    let s = String::from_utf8_lossy(path).to_string();
    if s.contains(['\\', '\n', '\r']) {
        (s.replace('\\', "\\\\").replace('\n', "\\n").replace('\r', "\\r"), true)
    } else {
        (s, false)
    }
}

pub fn model_output_line(path: &[u8], digest_hex: &str, tag: bool) -> String {
    let (t, esc) = model_path_text(path);
    let mut l = String::new();
    if esc {
        l.push('\\');
    }
    if tag {
        l.push_str(&format!("BLAKE3 ({}) = {}", t, digest_hex));
    } else {
        l.push_str(&format!("{}  {}", digest_hex, t));
    }
    l
}

fn representable(path: &[u8]) -> bool {
    match std::str::from_utf8(path) {
        Ok(s) => !s.contains('\u{FFFD}') && !s.contains('\0') && !s.is_empty(),
        Err(_) => false,
    }
}

// ---------------------------------------------------------------------------------------------

struct RunOut {
    code: Option<i32>,
    stdout: Vec<u8>,
    stderr: Vec<u8>,
}

fn run_b3sum(sh: &Shared, args: &[std::ffi::OsString], stdin: &[u8]) -> Result<RunOut, OpErr> {
    run_b3sum_split(sh, args, stdin, None)
}

/// `split`: deliver stdin in two writes with a pause, so that the child sees a short read first
/// (a pipe or terminal delivering a key in pieces). Real time is involved, but only as a means: the
/// verdict does not depend on whether the pause was long enough.
fn run_b3sum_split(sh: &Shared, args: &[std::ffi::OsString], stdin: &[u8], split: Option<usize>) -> Result<RunOut, OpErr> {
    let Some(bin) = b3sum_bin() else { return Err(OpErr::Harness("B3SUM_BIN not set or missing".into())) };
    let dir = sh.scratch_dir()?;
    let mut child = std::process::Command::new(bin)
        .args(args)
        .current_dir(&dir)
        .env_clear()
        .stdin(std::process::Stdio::piped())
        .stdout(std::process::Stdio::piped())
        .stderr(std::process::Stdio::piped())
        .spawn()
        .map_err(|e| OpErr::Harness(format!("spawn b3sum: {e}")))?;
    // stdin is fed from its own thread: a large checkfile on stdin and a large report on stdout at the same time
    // would otherwise block each other (both pipes full)
    let feeder = {
        let mut si = child.stdin.take().unwrap();
        let bytes = stdin.to_vec();
        let piecewise = matches!(split, Some(k) if k > 0 && k < stdin.len());
        if piecewise {
            sh.fault("stdin_delivered_in_pieces");
        }
        std::thread::spawn(move || match split {
            Some(k) if k > 0 && k < bytes.len() => {
                let _ = si.write_all(&bytes[..k]);
                let _ = si.flush();
                std::thread::sleep(std::time::Duration::from_millis(60));
                let _ = si.write_all(&bytes[k..]);
            }
            _ => {
                let _ = si.write_all(&bytes); // the child may exit without reading its stdin
            }
        })
    };
    let out = child.wait_with_output().map_err(|e| OpErr::Harness(format!("wait b3sum: {e}")))?;
    let _ = feeder.join();
    Ok(RunOut { code: out.status.code(), stdout: out.stdout, stderr: out.stderr })
}

fn crashed(o: &RunOut) -> Option<String> {
    let se = String::from_utf8_lossy(&o.stderr);
    if o.code == Some(101) || se.contains("panicked at") {
        return Some(format!("b3sum panicked: {}", se.lines().take(3).collect::<Vec<_>>().join(" | ")));
    }
    if o.code.is_none() {
        return Some("b3sum was killed by a signal".into());
    }
    None
}

fn mode_of(sh: &Shared, f: &CliFlags) -> Result<(MMode, Vec<u8>, bool), OpErr> {
    // returns (mode, stdin key bytes, key_ok)
    if let Some(k) = f.keyed {
        let kb = sh.data.get(k).ok_or(OpErr::Skip)?.clone();
        if kb.len() == 32 {
            let mut key = [0u8; 32];
            key.copy_from_slice(&kb);
            return Ok((MMode::Keyed(key), kb, true));
        }
        return Ok((MMode::Hash, kb, false));
    }
    if let Some(c) = f.derive {
        let s = ctx_string(sh, c)?.replace('\0', "0");
        return Ok((MMode::Derive(s.into_bytes()), vec![], true));
    }
    Ok((MMode::Hash, vec![], true))
}

fn flag_args(sh: &Shared, f: &CliFlags) -> Result<Vec<std::ffi::OsString>, OpErr> {
    let mut a: Vec<std::ffi::OsString> = Vec::new();
    if f.keyed.is_some() {
        a.push("--keyed".into());
    }
    if let Some(c) = f.derive {
        // "--opt=value": a value starting with '-' is then still a value
        a.push(format!("--derive-key={}", ctx_string(sh, c)?.replace('\0', "0")).into());
    }
    if let Some(l) = f.length {
        a.push("--length".into());
        a.push(l.to_string().into());
    }
    if let Some(s) = f.seek {
        a.push("--seek".into());
        a.push(s.to_string().into());
    }
    if f.no_mmap {
        a.push("--no-mmap".into());
    }
    if let Some(n) = f.num_threads {
        a.push("--num-threads".into());
        a.push(n.to_string().into());
    }
    if f.raw {
        a.push("--raw".into());
    }
    if f.no_names {
        a.push("--no-names".into());
    }
    if f.tag {
        a.push("--tag".into());
    }
    if let Some(b) = &f.bogus {
        a.push(b.into());
    }
    Ok(a)
}

fn lib_output(mode: &MMode, content: &[u8], seek: u64, len: usize) -> Vec<u8> {
    crate::ops::twin_xof(mode, content, seek, len)
}

fn write_node(dir: &std::path::Path, path: &[u8], node: &FsNode) -> Result<(), OpErr> {
    let p = dir.join(std::ffi::OsStr::from_bytes(path));
    let _ = std::fs::remove_dir_all(&p);
    let _ = std::fs::remove_file(&p);
    match node {
        FsNode::File(c) => {
            if path.contains(&b'/') {
                if let Some(parent) = p.parent() {
                    std::fs::create_dir_all(parent).map_err(|e| OpErr::Harness(format!("mkdir {:?}: {e}", parent)))?;
                }
            }
            std::fs::write(&p, c).map_err(|e| OpErr::Harness(format!("write {:?}: {e}", p)))
        }
        FsNode::Dir => std::fs::create_dir_all(&p).map_err(|e| OpErr::Harness(format!("mkdir {:?}: {e}", p))),
        FsNode::Missing => Ok(()),
    }
}

fn apply_damage(cf: &mut Vec<u8>, kind: &Damage) -> bool {
    match kind {
        Damage::Crlf => {
            let mut out = Vec::with_capacity(cf.len() + 16);
            for &b in cf.iter() {
                if b == b'\n' {
                    out.push(b'\r');
                }
                out.push(b);
            }
            *cf = out;
            true
        }
        Damage::Line { line, pos, edit, ch } => {
            let Ok(text) = String::from_utf8(cf.clone()) else { return false };
            let mut lines: Vec<String> = text.split_inclusive('\n').map(|s| s.to_string()).collect();
            if lines.is_empty() {
                return false;
            }
            let li = line % lines.len();
            let (body, nl) = match lines[li].strip_suffix('\n') {
                Some(b) => (b.to_string(), "\n"),
                None => (lines[li].clone(), ""),
            };
            let mut chars: Vec<char> = body.chars().collect();
            let p = if chars.is_empty() { 0 } else { pos % (chars.len() + 1) };
            match edit % 4 {
                3 => {
                    // byte-length preserving overwrite: k ASCII chars replaced by one k-byte char
                    let k = ch.len();
                    if p + k <= chars.len() && chars[p..p + k].iter().all(|c| c.is_ascii()) && ch.chars().count() == 1 {
                        chars.splice(p..p + k, ch.chars());
                    }
                }
                0 => {
                    if p < chars.len() {
                        chars.splice(p..p + 1, ch.chars());
                    } else {
                        chars.extend(ch.chars());
                    }
                }
                1 => {
                    let tail: Vec<char> = chars.split_off(p.min(chars.len()));
                    chars.extend(ch.chars());
                    chars.extend(tail);
                }
                _ => {
                    if p < chars.len() {
                        chars.remove(p);
                    }
                }
            }
            lines[li] = chars.into_iter().collect::<String>() + nl;
            *cf = lines.concat().into_bytes();
            true
        }
        Damage::AppendLine { text_hex } => {
            if !cf.is_empty() && cf.last() != Some(&b'\n') {
                cf.push(b'\n');
            }
            cf.extend_from_slice(&unhex(text_hex));
            cf.push(b'\n');
            true
        }
        Damage::AppendLines { text_hex, n } => {
            if !cf.is_empty() && cf.last() != Some(&b'\n') {
                cf.push(b'\n');
            }
            let line = unhex(text_hex);
            for _ in 0..*n {
                cf.extend_from_slice(&line);
                cf.push(b'\n');
            }
            true
        }
        Damage::Concat { .. } => false, // needs the other checkfile: done by the caller
        Damage::RepeatSelf { n } => {
            if cf.is_empty() || cf.len() * *n > (8 << 20) {
                return false;
            }
            if cf.last() != Some(&b'\n') {
                cf.push(b'\n');
            }
            let one = cf.clone();
            for _ in 1..*n {
                cf.extend_from_slice(&one);
            }
            true
        }
        Damage::DupWithSuffix { line, suffix_hex } => {
            let Ok(text) = String::from_utf8(cf.clone()) else { return false };
            let lines: Vec<&str> = text.split_inclusive('\n').collect();
            if lines.is_empty() {
                return false;
            }
            let l = lines[line % lines.len()].trim_end_matches(['\r', '\n']);
            let Ok(suffix) = String::from_utf8(unhex(suffix_hex)) else { return false };
            // tagged: "BLAKE3 (name) = hash" -> the name ends before the last ") = "; untagged: the name ends the line
            let dup = match (l.trim_start_matches('\\').starts_with("BLAKE3 ("), l.rfind(") = ")) {
                (true, Some(i)) => format!("{}{}{}", &l[..i], suffix, &l[i..]),
                _ => format!("{l}{suffix}"),
            };
            if !cf.is_empty() && cf.last() != Some(&b'\n') {
                cf.push(b'\n');
            }
            cf.extend_from_slice(dup.as_bytes());
            cf.push(b'\n');
            true
        }
        Damage::TruncateBytes { n } => {
            let k = if cf.is_empty() { 0 } else { n % cf.len() };
            cf.truncate(k);
            true
        }
        Damage::InvalidUtf8 { at } => {
            let k = if cf.is_empty() { 0 } else { at % cf.len() };
            cf.insert(k, 0xFF);
            true
        }
        Damage::DropFinalNewline => {
            if cf.last() == Some(&b'\n') {
                cf.pop();
            }
            true
        }
    }
}

/// every printable ASCII character plus the characters that matter for the format
fn mut_chars() -> Vec<String> {
    let mut v: Vec<String> = (0x20u8..0x7f).map(|b| (b as char).to_string()).collect();
    for s in ["\n", "\r", "\0", "\t", "\u{FFFD}", "é", "日", "😀", "\u{7f}"] {
        v.push(s.to_string());
    }
    v
}

/// oracle for one line of arbitrary text (C13): never a panic; Ok only with what the documented
/// format says; `must_ok` = the line is one b3sum printed for a representable path
fn judge_parse(line: &str, must_ok: Option<(&str, &[u8; 32])>) -> Result<u64, OpErr> {
    let res = std::panic::catch_unwind(|| crate::b3::verif_parse(line));
    let res = match res {
        Ok(r) => r,
        Err(_) => {
            return viol("panic", format!("parse_check_line panicked on {:?}: {}", line, last_panic()));
        }
    };
    let model = model_parse(line);
    match (&res, &model) {
        (Ok(p), Some(m)) => {
            let pb = p.path.as_os_str().as_bytes();
            if pb != m.path.as_bytes() || p.hash != m.hash {
                return viol(
                    "result-mismatch",
                    format!("line {:?} parsed to path {:?} hash {}, the documented format gives path {:?} hash {}", line, String::from_utf8_lossy(pb), hex(&p.hash), m.path, hex(&m.hash)),
                );
            }
        }
        (Ok(p), None) => {
            return viol(
                "result-mismatch",
                format!("line {:?} must be rejected but parsed to path {:?}", line, p.path),
            );
        }
        (Err(_), _) => {}
    }
    if let Some((path, hash)) = must_ok {
        match &res {
            Ok(p) if p.path.as_os_str().as_bytes() == path.as_bytes() && &p.hash == hash => {}
            Ok(p) => {
                return viol("result-mismatch", format!("line {:?} printed for path {:?} parsed back to {:?}", line, path, p.path));
            }
            Err(e) => {
                return viol("result-mismatch", format!("line {:?} printed by b3sum for path {:?} does not parse back: {}", line, path, e));
            }
        }
    }
    Ok(match &res {
        Ok(p) => Fnv::of(p.path.as_os_str().as_bytes()) ^ Fnv::of(&p.hash),
        Err(_) => 0xE44,
    })
}

pub fn do_cli(sh: &Arc<Shared>, _local: &mut TaskLocal, op: &Op) -> OpResult {
    match op {
        Op::CliFile { path_hex, data } => {
            let path = unhex(path_hex);
            let content = sh.data.get(*data).ok_or(OpErr::Skip)?.clone();
            let dir = sh.scratch_dir()?;
            let node = FsNode::File(content);
            write_node(&dir, &path, &node)?;
            sh.cli.lock().unwrap().fs.insert(path, node);
            Ok(1)
        }
        Op::CliFsFault { path_hex, kind } => {
            let path = unhex(path_hex);
            let dir = sh.scratch_dir()?;
            let mut st = sh.cli.lock().unwrap();
            let Some(cur) = st.fs.get(&path).cloned() else { return Err(OpErr::Skip) };
            let new = match (kind % 4, cur) {
                (0, _) => {
                    sh.fault("fs_delete");
                    FsNode::Missing
                }
                (1, FsNode::File(mut c)) => {
                    sh.fault("fs_modify");
                    if c.is_empty() {
                        c.push(b'x');
                    } else {
                        let i = c.len() / 2;
                        c[i] ^= 0x01;
                    }
                    FsNode::File(c)
                }
                (2, FsNode::File(mut c)) => {
                    sh.fault("fs_truncate");
                    let n = c.len() / 2;
                    c.truncate(n);
                    FsNode::File(c)
                }
                (3, _) => {
                    sh.fault("fs_replace_by_directory");
                    FsNode::Dir
                }
                (_, other) => other,
            };
            write_node(&dir, &path, &new)?;
            st.fs.insert(path, new);
            Ok(2)
        }
        Op::CliHash { paths, flags, stdin, save } => {
            let (mode, key_bytes, key_ok) = mode_of(sh, flags)?;
            let stdin_bytes: Vec<u8> = if flags.keyed.is_some() { key_bytes } else { stdin.and_then(|i| sh.data.get(i).cloned()).unwrap_or_default() };
            let mut args = flag_args(sh, flags)?;
            let pbytes: Vec<Vec<u8>> = paths.iter().map(|p| unhex(p)).collect();
            if !pbytes.is_empty() {
                args.push("--".into());
            }
            for p in &pbytes {
                args.push(std::ffi::OsString::from_vec(p.clone()));
            }
            let out = run_b3sum_split(sh, &args, &stdin_bytes, flags.stdin_split.map(|k| k as usize))?;
            if let Some(c) = crashed(&out) {
                return viol("panic", c);
            }
            let len = flags.length.unwrap_or(32);
            let seek = flags.seek.unwrap_or(0);
            if (seek as u128) + (len as u128) > u64::MAX as u128 || len > (1 << 20) {
                return Err(OpErr::Skip);
            }
            // invocations that must be refused as a whole: no digest at all, non-zero exit
            let effective: Vec<Vec<u8>> = if pbytes.is_empty() { vec![b"-".to_vec()] } else { pbytes.clone() };
            let refused = flags.bogus.is_some()
                || (flags.keyed.is_some() && (!key_ok || pbytes.is_empty()))
                || (flags.keyed.is_some() && flags.derive.is_some())
                || (flags.raw && effective.len() > 1);
            if refused {
                sh.fault("cli_rejected_invocation");
                if out.code == Some(0) || !out.stdout.is_empty() {
                    return viol("exit-status", format!("an invocation that must be refused exited {:?} with {} bytes on stdout (args {:?})", out.code, out.stdout.len(), args));
                }
                return Ok(0x4ef);
            }
            let st = sh.cli.lock().unwrap();
            let mut want: Vec<u8> = Vec::new();
            let mut failed = false;
            let mut stdin_left = Some(stdin_bytes.clone()); // stdin is a stream: the first "-" consumes it
            for p in &effective {
                let content: Option<Vec<u8>> = if p == b"-" {
                    if flags.keyed.is_some() {
                        None
                    } else {
                        Some(stdin_left.take().unwrap_or_default())
                    }
                } else {
                    match st.fs.get(p) {
                        Some(FsNode::File(c)) => Some(c.clone()),
                        _ => None,
                    }
                };
                let Some(content) = content else {
                    failed = true;
                    sh.fault("cli_unreadable_input");
                    continue;
                };
                let digest = lib_output(&mode, &content, seek, len as usize);
                if content.len() >= 16384 && !flags.no_mmap && p != b"-" {
                    sh.probe("cli_mmap_path");
                } else {
                    sh.probe("cli_read_path");
                }
                if flags.raw {
                    want.extend_from_slice(&digest);
                } else if flags.no_names {
                    want.extend_from_slice(hex(&digest).as_bytes());
                    want.push(b'\n');
                } else {
                    want.extend_from_slice(model_output_line(p, &hex(&digest), flags.tag).as_bytes());
                    want.push(b'\n');
                }
            }
            drop(st);
            if out.stdout != want {
                let i = first_diff(&out.stdout, &want);
                return viol(
                    "result-mismatch",
                    format!(
                        "b3sum stdout differs from the library's output at byte {} (args {:?}): got {:?} want {:?}",
                        i,
                        args,
                        String::from_utf8_lossy(&out.stdout[i.saturating_sub(8)..out.stdout.len().min(i + 40)]),
                        String::from_utf8_lossy(&want[i.saturating_sub(8)..want.len().min(i + 40)])
                    ),
                );
            }
            if (out.code == Some(0)) == failed {
                return viol("exit-status", format!("exit status {:?} but failed={} (args {:?})", out.code, failed, args));
            }
            if let Some(id) = save {
                sh.cli.lock().unwrap().checkfiles.insert(*id, out.stdout.clone());
            }
            if seek / 64 >= 1 << 32 {
                sh.probe("cli_seek_counter_above_2^32");
            }
            sh.shape(Fnv::of(&[
                1,
                flags.keyed.is_some() as u8,
                flags.derive.is_some() as u8,
                flags.length.map_or(0, |l| 1 + (l > 32) as u8 + (l > 64) as u8),
                (seek > 0) as u8 + (seek % 64 != 0) as u8,
                flags.no_mmap as u8,
                flags.num_threads.unwrap_or(0),
                flags.raw as u8,
                flags.no_names as u8,
                flags.tag as u8,
                failed as u8,
                effective.len().min(3) as u8,
            ]));
            Ok(Fnv::of(&out.stdout) ^ out.code.unwrap_or(-1) as u64)
        }
        Op::CliDamage { cf, kind } => {
            let mut st = sh.cli.lock().unwrap();
            if let Damage::Concat { other } = kind {
                let Some(o) = st.checkfiles.get(other).cloned() else { return Err(OpErr::Skip) };
                let Some(c) = st.checkfiles.get_mut(cf) else { return Err(OpErr::Skip) };
                if !c.is_empty() && c.last() != Some(&b'\n') {
                    c.push(b'\n');
                }
                c.extend_from_slice(&o);
                sh.fault("checkfile_concatenated");
                return Ok(3);
            }
            let Some(c) = st.checkfiles.get_mut(cf) else { return Err(OpErr::Skip) };
            if !apply_damage(c, kind) {
                return Err(OpErr::Skip);
            }
            sh.fault(match kind {
                Damage::Crlf => "checkfile_crlf",
                Damage::Line { .. } => "checkfile_line_damage",
                Damage::AppendLine { .. } => "checkfile_spliced_line",
                Damage::AppendLines { .. } => "checkfile_many_failing_lines",
                Damage::Concat { .. } => "checkfile_concatenated",
                Damage::RepeatSelf { .. } => "checkfile_repeated_many_times",
                Damage::DupWithSuffix { .. } => "checkfile_duplicate_entry_with_path_suffix",
                Damage::TruncateBytes { .. } => "checkfile_truncated",
                Damage::InvalidUtf8 { .. } => "checkfile_invalid_utf8",
                Damage::DropFinalNewline => "checkfile_no_final_newline",
            });
            Ok(3)
        }
        Op::CliCheck { cfs, flags, quiet, via_stdin } => {
            let dir = sh.scratch_dir()?;
            let st = sh.cli.lock().unwrap();
            let mut args: Vec<std::ffi::OsString> = vec!["--check".into()];
            args.extend(flag_args(sh, flags)?);
            if *quiet {
                args.push("--quiet".into());
            }
            let mut contents: Vec<Option<Vec<u8>>> = Vec::new();
            let mut stdin_bytes = Vec::new();
            if *via_stdin {
                let Some(c) = cfs.first().and_then(|i| st.checkfiles.get(i)) else { return Err(OpErr::Skip) };
                stdin_bytes = c.clone();
                contents.push(Some(c.clone()));
            } else {
                for (k, id) in cfs.iter().enumerate() {
                    let name = format!("checkfile.{k}.b3");
                    match st.checkfiles.get(id) {
                        Some(c) => {
                            std::fs::write(dir.join(&name), c).map_err(|e| OpErr::Harness(format!("write checkfile: {e}")))?;
                            contents.push(Some(c.clone()));
                        }
                        None => {
                            let _ = std::fs::remove_file(dir.join(&name));
                            contents.push(None); // a checkfile that does not exist
                            sh.fault("checkfile_missing");
                        }
                    }
                    args.push(name.into());
                }
            }
            let fs = st.fs.clone();
            drop(st);
            if contents.is_empty() {
                return Err(OpErr::Skip);
            }
            let out = run_b3sum(sh, &args, &stdin_bytes)?;
            if let Some(c) = crashed(&out) {
                return viol("panic", format!("{c} (args {:?})", args));
            }
            if flags.bogus.is_some() {
                if out.code == Some(0) || !out.stdout.is_empty() {
                    return viol("exit-status", format!("--check with {:?} must be refused, exit {:?}", flags.bogus, out.code));
                }
                return Ok(0x4ef);
            }
            // line-by-line model
            let seek = flags.seek.unwrap_or(0);
            let mut want: Vec<(String, bool)> = Vec::new();
            let mut failed = 0u64;
            let mut only_status = false; // unreadable / non-UTF-8 checkfile: only the exit status is specified
            'files: for c in &contents {
                let Some(c) = c else {
                    only_status = true;
                    failed += 1;
                    break 'files;
                };
                for raw in c.split_inclusive(|b| *b == b'\n') {
                    let Ok(line) = std::str::from_utf8(raw) else {
                        only_status = true;
                        failed += 1;
                        break 'files;
                    };
                    match model_parse(line) {
                        None => {
                            failed += 1;
                            sh.probe("check_malformed_line");
                        }
                        Some(m) => {
                            let node = if m.path == "-" { Some(FsNode::File(stdin_bytes.clone())) } else { fs.get(m.path.as_bytes()).cloned() };
                            // a path with '/' or anything we did not create: look at the real directory
                            let ok = match node {
                                Some(FsNode::File(content)) => {
                                    if (seek as u128) + 32 > u64::MAX as u128 {
                                        return Err(OpErr::Skip);
                                    }
                                    lib_output(&MMode::Hash, &content, seek, 32) == m.hash
                                }
                                Some(FsNode::Dir) | Some(FsNode::Missing) => false,
                                None => {
                                    if dir.join(&m.path).exists() {
                                        return Err(OpErr::Skip); // names something outside the model (e.g. a checkfile): not judged
                                    }
                                    false
                                }
                            };
                            if !ok {
                                failed += 1;
                                sh.probe("check_failed_entry");
                            } else {
                                sh.probe("check_ok_entry");
                            }
                            want.push((m.display, ok));
                        }
                    }
                }
            }
            if (out.code == Some(0)) != (failed == 0) {
                return viol("exit-status", format!("--check exited {:?} but {} entries failed by the line-by-line model (args {:?})", out.code, failed, args));
            }
            if !only_status {
                let so = String::from_utf8_lossy(&out.stdout).to_string();
                let got: Vec<&str> = so.split_inclusive('\n').collect();
                let want_lines: Vec<&(String, bool)> = want.iter().filter(|(_, ok)| !(*quiet && *ok)).collect();
                // entries are matched in order; a display text may itself contain CR
                let mut gi = 0;
                for (disp, ok) in want_lines {
                    let exp_ok = format!("{}: OK\n", disp);
                    let exp_fail = format!("{}: FAILED", disp);
                    let Some(g) = got.get(gi) else {
                        return viol("missing-entry", format!("entry {:?} was not reported (stdout has {} lines; args {:?})", disp, got.len(), args));
                    };
                    let matches = if *ok { *g == exp_ok } else { g.starts_with(&exp_fail) };
                    if !matches {
                        return viol("missing-entry", format!("entry {:?} expected {} but stdout line {} is {:?}", disp, if *ok { "OK" } else { "FAILED" }, gi, g));
                    }
                    gi += 1;
                }
                if gi != got.len() {
                    return viol("missing-entry", format!("unexpected extra output line {:?}", got[gi]));
                }
            }
            let n_ok = want.iter().filter(|(_, ok)| *ok).count();
            sh.shape(Fnv::of(&[
                2,
                n_ok.min(4) as u8,
                (want.len() - n_ok).min(4) as u8,
                (failed as usize).saturating_sub(want.len() - n_ok).min(3) as u8, // malformed lines
                only_status as u8,
                *quiet as u8,
                *via_stdin as u8,
                contents.len().min(3) as u8,
                flags.no_mmap as u8,
            ]));
            Ok(Fnv::of(&out.stdout) ^ out.code.unwrap_or(-1) as u64)
        }
        Op::PathRoundTrip { .. } | Op::ParseMutations { .. } | Op::ParseLine { .. } if !crate::b3::PRIVATE_API => {
            sh.probe("b3sum_private_parser_unavailable_skipped");
            Err(OpErr::Skip)
        }
        Op::PathRoundTrip { path_hex, tag, crlf } => {
            let path = unhex(path_hex);
            if path.is_empty() {
                return Err(OpErr::Skip);
            }
            let mut h = [0u8; 32];
            crate::rng::Rng::new(Fnv::of(&path)).fill(&mut h);
            // filepath_to_string as the producer really does it + the println! formats of hash_one_input
            let (text, esc) = crate::b3::verif_filepath_to_string(std::path::Path::new(std::ffi::OsStr::from_bytes(&path)));
            let (mt, me) = model_path_text(&path);
            if text != mt || esc != me {
                return viol("result-mismatch", format!("filepath_to_string({:?}) = ({:?},{}) but the documented escaping gives ({:?},{})", String::from_utf8_lossy(&path), text, esc, mt, me));
            }
            let mut line = String::new();
            if esc {
                line.push('\\');
            }
            if *tag {
                line.push_str(&format!("BLAKE3 ({}) = {}", text, hex(&h)));
            } else {
                line.push_str(&format!("{}  {}", hex(&h), text));
            }
            line.push_str(if *crlf { "\r\n" } else { "\n" });
            let cls = |b: &[u8]| -> u8 {
                (b.windows(2).any(|w| w == b"  ") as u8)
                    | ((b.contains(&b'\\') as u8) << 1)
                    | ((b.contains(&b'\n') as u8) << 2)
                    | ((b.contains(&b'\r') as u8) << 3)
                    | ((b.windows(4).any(|w| w == b") = ") as u8) << 4)
                    | ((b.starts_with(b"BLAKE3 (") as u8) << 5)
                    | ((std::str::from_utf8(b).is_err() as u8) << 6)
                    | (((!b.is_ascii()) as u8) << 7)
            };
            sh.shape(Fnv::of(&[3, *tag as u8, *crlf as u8, cls(&path)]));
            if representable(&path) {
                let p = std::str::from_utf8(&path).unwrap();
                // a path ending in CR cannot survive CRLF/LF trimming when unescaped: it is always escaped, so it does
                sh.probe("roundtrip_representable_path");
                judge_parse(&line, Some((p, &h)))
            } else {
                sh.probe("roundtrip_unrepresentable_path");
                let r = std::panic::catch_unwind(|| crate::b3::verif_parse(&line));
                match r {
                    Err(_) => viol("panic", format!("parse_check_line panicked on {:?}", line)),
                    Ok(Ok(p)) => viol("result-mismatch", format!("unrepresentable path {:?} was accepted at check time as {:?}", String::from_utf8_lossy(&path), p.path)),
                    Ok(Err(_)) => Ok(0xE45),
                }
            }
        }
        Op::ParseMutations { path_hex, tag, crlf } => {
            let path = unhex(path_hex);
            if path.is_empty() {
                return Err(OpErr::Skip);
            }
            let mut h = [0u8; 32];
            crate::rng::Rng::new(Fnv::of(&path) ^ 7).fill(&mut h);
            let base = model_output_line(&path, &hex(&h), *tag) + if *crlf { "\r\n" } else { "\n" };
            let chars: Vec<char> = base.chars().collect();
            let mut n = 0u64;
            let mut f = Fnv::default();
            let mchars = mut_chars();
            for p in 0..=chars.len() {
                for edit in 0..3 {
                    for ch in mchars.iter().map(|s| s.as_str()) {
                        if edit == 2 && ch != "0" {
                            continue; // deletion does not depend on the character
                        }
                        if p == chars.len() && edit != 1 {
                            continue;
                        }
                        let mut c2 = chars.clone();
                        match edit {
                            0 => {
                                c2.splice(p..p + 1, ch.chars());
                            }
                            1 => {
                                let tail = c2.split_off(p);
                                c2.extend(ch.chars());
                                c2.extend(tail);
                            }
                            _ => {
                                c2.remove(p);
                            }
                        }
                        let line: String = c2.into_iter().collect();
                        f.u64(judge_parse(&line, None)?);
                        n += 1;
                    }
                }
            }
            // byte-length preserving overwrites: k ASCII characters replaced by one k-byte character
            // (what overwriting stored bytes produces; keeps every field length in bytes intact)
            for p in 0..chars.len() {
                for ch in ["é", "日", "😀", "\u{FFFD}"] {
                    let k = ch.len();
                    if p + k > chars.len() || !chars[p..p + k].iter().all(|c| c.is_ascii()) {
                        continue;
                    }
                    let mut c2 = chars.clone();
                    c2.splice(p..p + k, ch.chars());
                    let line: String = c2.into_iter().collect();
                    f.u64(judge_parse(&line, None)?);
                    n += 1;
                }
            }
            // truncations
            for k in 0..chars.len() {
                let line: String = chars[..k].iter().collect();
                f.u64(judge_parse(&line, None)?);
                n += 1;
            }
            sh.stats.lock().unwrap().bytes += n; // counted as "mutated lines judged"
            sh.probe("parse_mutation_sweeps");
            Ok(f.0)
        }
        Op::ParseLine { line_hex } => {
            let bytes = unhex(line_hex);
            let Ok(line) = String::from_utf8(bytes) else { return Err(OpErr::Skip) };
            judge_parse(&line, None)
        }
        // real special files deliver their bytes in pieces the simulator does not control: their kernel calls are
        // not scheduling points (they would make the trace depend on timing)
        Op::FileKinds { kind } => crate::sched::quiet(|| file_kinds(sh, *kind)),
        Op::CliSpecial { kind, flags, data } => {
            let mut args = flag_args(sh, flags)?;
            let (path, content, stdin): (&str, Vec<u8>, Vec<u8>) = if kind % 2 == 0 {
                let Ok(c) = std::fs::read("/proc/version") else { return Err(OpErr::Skip) };
                ("/proc/version", c, Vec::new())
            } else {
                let c = sh.data.get(*data).cloned().unwrap_or_default();
                ("/dev/stdin", c.clone(), c)
            };
            args.push("--".into());
            args.push(path.into());
            let out = run_b3sum(sh, &args, &stdin)?;
            if let Some(c) = crashed(&out) {
                return viol("panic", c);
            }
            let len = flags.length.unwrap_or(32);
            let digest = lib_output(&MMode::Hash, &content, 0, len as usize);
            let mut want = model_output_line(path.as_bytes(), &hex(&digest), flags.tag).into_bytes();
            want.push(b'\n');
            if out.stdout != want || out.code != Some(0) {
                return viol(
                    "result-mismatch",
                    format!("b3sum {:?} on {} ({} bytes when read): exit {:?}, stdout {:?}, want {:?}", args, path, content.len(), out.code, String::from_utf8_lossy(&out.stdout), String::from_utf8_lossy(&want)),
                );
            }
            sh.probe(if kind % 2 == 0 { "cli_proc_file" } else { "cli_pipe_opened_by_path" });
            Ok(Fnv::of(&out.stdout))
        }
        Op::HugeFile { extra, seed, via } => crate::sched::quiet(|| huge_file(sh, *extra, *seed, *via)),
        Op::SysFault { target, data, syscall, errno, when } => sys_fault(sh, *target, *data, *syscall, *errno, *when),
        _ => Err(OpErr::Skip),
    }
}

/// C11 file half on special files: the three path-based adapters agree (all Ok with the same
/// hash and count, or all Err)
fn file_kinds(sh: &Arc<Shared>, kind: u8) -> OpResult {
    let dir = sh.scratch_dir()?;
    if kind % 9 == 8 {
        return fifo_kind(sh);
    }
    let (path, name): (std::path::PathBuf, &'static str) = match kind % 9 {
        7 => ("/proc/crypto".into(), "proc_multi_read"),
        0 => ("/proc/version".into(), "proc_file"),
        1 => ("/dev/null".into(), "dev_null"),
        2 => (dir.clone(), "directory"),
        3 => (dir.join("does-not-exist"), "missing"),
        4 => ("/sys/kernel/btf/vmlinux".into(), "large_unmappable_sysfs"),
        5 => {
            let p = dir.join("loop");
            let _ = std::os::unix::fs::symlink("loop", &p);
            (p, "symlink_loop")
        }
        _ => {
            let p = dir.join("empty");
            std::fs::write(&p, b"").map_err(|e| OpErr::Harness(e.to_string()))?;
            (p, "empty_regular")
        }
    };
    if matches!(kind % 9, 0 | 1 | 4 | 7) && !path.exists() {
        sh.probe("special_file_absent_skipped");
        return Err(OpErr::Skip);
    }
    let pool = rayon_core::ThreadPoolBuilder::new().num_threads(2).build().map_err(|e| OpErr::Harness(e.to_string()))?;
    let mut results: Vec<Result<([u8; 32], u64), std::io::ErrorKind>> = Vec::new();
    for which in 0..3 {
        let mut h = blake3::Hasher::new();
        let r: std::io::Result<()> = match which {
            0 => h.update_mmap(&path).map(|_| ()),
            1 => pool.install(|| h.update_mmap_rayon(&path).map(|_| ())),
            _ => std::fs::File::open(&path).and_then(|f| h.update_reader(f).map(|_| ())),
        };
        results.push(r.map(|_| (*h.finalize().as_bytes(), h.count())).map_err(|e| e.kind()));
    }
    sh.probe(match name {
        "proc_file" => "special_proc_file",
        "dev_null" => "special_dev_null",
        "directory" => "special_directory",
        "missing" => "special_missing",
        "large_unmappable_sysfs" => "special_large_unmappable_sysfs",
        "symlink_loop" => "special_symlink_loop",
        "proc_multi_read" => "special_proc_multi_read",
        _ => "special_empty_regular",
    });
    let oks: Vec<_> = results.iter().filter_map(|r| r.as_ref().ok()).collect();
    if !oks.is_empty() && oks.len() != 3 {
        return viol("result-mismatch", format!("{name}: adapters disagree on success: {:?}", results.iter().map(|r| r.is_ok()).collect::<Vec<_>>()));
    }
    if oks.len() == 3 && (oks[0] != oks[1] || oks[0] != oks[2]) {
        return viol("result-mismatch", format!("{name}: update_mmap / update_mmap_rayon / update_reader(File) disagree: counts {} {} {}", oks[0].1, oks[1].1, oks[2].1));
    }
    if matches!(name, "directory" | "missing" | "symlink_loop") && !oks.is_empty() {
        return viol("result-mismatch", format!("{name}: hashing succeeded"));
    }
    if matches!(name, "dev_null" | "empty_regular") {
        if let Some(o) = oks.first() {
            if o.1 != 0 || o.0 != *blake3::hash(b"").as_bytes() {
                return viol("result-mismatch", format!("{name}: not the empty hash"));
            }
        }
    }
    Ok(oks.first().map_or(0xE77, |o| Fnv::of(&o.0)))
}


/// a file of 2^32 + extra bytes: lengths and offsets that no longer fit 32 bits, on the path adapters
fn huge_file(sh: &Arc<Shared>, extra: u32, seed: u64, via: u8) -> OpResult {
    use std::os::unix::fs::FileExt;
    let dir = sh.scratch_dir()?;
    let path = dir.join("huge.bin");
    let len: u64 = (1u64 << 32) + extra as u64;
    let mut head = vec![0u8; 5000];
    let mut tail = vec![0u8; 20000];
    let mut r = crate::rng::Rng::new(seed);
    r.fill(&mut head);
    r.fill(&mut tail);
    let mk = || -> std::io::Result<()> {
        let f = std::fs::File::create(&path)?;
        f.set_len(len)?;
        f.write_all_at(&head, 0)?;
        f.write_all_at(&tail, len - tail.len() as u64)?;
        Ok(())
    };
    if let Err(e) = mk() {
        // no room or no sparse files here: nothing to judge
        let _ = std::fs::remove_file(&path);
        sh.probe("huge_file_not_creatable_skipped");
        eprintln!("note: huge sparse file not created ({e}); run skipped");
        return Err(OpErr::Skip);
    }
    let mut h = blake3::Hasher::new();
    let res: std::io::Result<()> = match via % 3 {
        0 => h.update_mmap(&path).map(|_| ()),
        1 => {
            let pool = rayon_core::ThreadPoolBuilder::new().num_threads(16).build().map_err(|e| OpErr::Harness(e.to_string()))?;
            pool.install(|| h.update_mmap_rayon(&path).map(|_| ()))
        }
        _ => std::fs::File::open(&path).and_then(|f| h.update_reader(f).map(|_| ())),
    };
    let _ = std::fs::remove_file(&path);
    if let Err(e) = res {
        return viol("result-mismatch", format!("hashing a regular file of {len} bytes by path failed: {e}"));
    }
    // oracle: the same bytes through plain update
    let mut o = blake3::Hasher::new();
    o.update(&head);
    let zeros = vec![0u8; 1 << 20];
    let mut left = len - head.len() as u64 - tail.len() as u64;
    while left > 0 {
        let k = left.min(zeros.len() as u64) as usize;
        o.update(&zeros[..k]);
        left -= k as u64;
    }
    o.update(&tail);
    if h.count() != len {
        return viol("count-mismatch", format!("count()={} after hashing a file of {len} bytes by path (adapter {})", h.count(), via % 3));
    }
    if h.finalize() != o.finalize() {
        return viol("result-mismatch", format!("a file of {len} bytes hashed by path (adapter {}) differs from update() on the same bytes", via % 3));
    }
    sh.probe("file_of_2^32_bytes_or_more");
    Ok(len)
}

pub fn strace_available() -> bool {
    use std::sync::OnceLock;
    static OK: OnceLock<bool> = OnceLock::new();
    *OK.get_or_init(|| {
        // ptrace may be forbidden in a sandbox: probe once with a trivial injection
        std::process::Command::new("strace")
            .args(["-f", "-o", "/dev/null", "-e", "trace=getpid", "-e", "inject=getpid:retval=7:when=1", "true"])
            .stdout(std::process::Stdio::null())
            .stderr(std::process::Stdio::null())
            .status()
            .map_or(false, |s| s.success())
    })
}

/// child side: `b3sim child hash-file <how> <path>` prints "<hex> <count>" or "ERR <kind>"
pub fn child_hash_file(how: &str, path: &str) -> i32 {
    let mut h = blake3::Hasher::new();
    let r: std::io::Result<()> = match how {
        "mmap" => h.update_mmap(path).map(|_| ()),
        "mmap_rayon" => h.update_mmap_rayon(path).map(|_| ()),
        _ => std::fs::File::open(path).and_then(|f| h.update_reader(f).map(|_| ())),
    };
    match r {
        Ok(()) => {
            println!("{} {}", h.finalize().to_hex(), h.count());
            0
        }
        Err(e) => {
            println!("ERR {:?}", e.kind());
            1
        }
    }
}

fn sys_fault(sh: &Arc<Shared>, target: u8, data: usize, syscall: u8, errno: u8, when: u32) -> OpResult {
    if !strace_available() {
        sh.probe("syscall_faults_skipped_no_ptrace");
        return Err(OpErr::Skip);
    }
    let content = sh.data.get(data).ok_or(OpErr::Skip)?.clone();
    let dir = sh.scratch_dir()?;
    let path = dir.join("sysfault.bin");
    std::fs::write(&path, &content).map_err(|e| OpErr::Harness(e.to_string()))?;
    let (sc, errs): (&str, &[&str]) = match syscall % 3 {
        0 => ("mmap", &["ENOMEM", "ENODEV", "EACCES", "EINVAL", "EAGAIN"]),
        1 => ("lseek", &["ESPIPE", "EINVAL", "EOVERFLOW"]),
        _ => ("read", &["EINTR", "EIO", "EAGAIN", "EBADF"]),
    };
    let en = errs[errno as usize % errs.len()];
    let when = when.max(1);
    let log = dir.join("strace.log");
    let mut cmd = std::process::Command::new("strace");
    cmd.arg("-f").arg("-o").arg(&log).arg("-P").arg(&path).arg("-e").arg("trace=read,mmap,lseek,pread64").arg("-e").arg(format!("inject={sc}:error={en}:when={when}"));
    let is_b3sum = target % 5 >= 3;
    if is_b3sum {
        let Some(bin) = b3sum_bin() else { return Err(OpErr::Harness("B3SUM_BIN not set".into())) };
        cmd.arg(bin);
        if target % 5 == 4 {
            cmd.arg("--no-mmap");
        }
        cmd.arg("sysfault.bin");
    } else {
        cmd.arg(std::env::current_exe().unwrap()).arg("child").arg("hash-file").arg(["mmap", "mmap_rayon", "reader"][(target % 5) as usize]).arg(&path);
    }
    let out = cmd.current_dir(&dir).stdin(std::process::Stdio::null()).output().map_err(|e| OpErr::Harness(format!("strace: {e}")))?;
    let logtxt = std::fs::read_to_string(&log).unwrap_or_default();
    let injected = logtxt.contains("(INJECTED)");
    let so = String::from_utf8_lossy(&out.stdout).to_string();
    let se = String::from_utf8_lossy(&out.stderr).to_string();
    if out.status.code() == Some(101) || se.contains("panicked at") {
        return viol("panic", format!("child panicked under {sc}:{en}:when={when}: {}", se.lines().next().unwrap_or("")));
    }
    let want_hex = crate::model::hex(&crate::ops::oneshot(&MMode::Hash, &content));
    let got_hex = so.split_whitespace().next().unwrap_or("").to_string();
    let ok_exit = out.status.code() == Some(0);
    sh.fault(match (sc, en, injected) {
        (_, _, false) => "syscall_fault_not_reached",
        ("mmap", _, _) => "syscall_mmap_fails",
        ("lseek", _, _) => "syscall_lseek_fails",
        ("read", "EINTR", _) => "syscall_read_eintr",
        _ => "syscall_read_hard_error",
    });
    // a digest may only ever be printed if it is the right one
    if ok_exit && got_hex != want_hex {
        return viol("result-mismatch", format!("{sc} -> {en} (call {when}, injected={injected}): exit 0 with digest {got_hex}, file hashes to {want_hex}"));
    }
    if !ok_exit && got_hex.len() == 64 && !is_b3sum {
        return viol("result-mismatch", format!("{sc} -> {en}: failed but printed a digest"));
    }
    let retriable = sc == "mmap" || sc == "lseek" || en == "EINTR";
    if retriable || !injected {
        // mapping failures fall back to reads, Interrupted is retried, an untouched run just works
        if !ok_exit {
            return viol("result-mismatch", format!("{sc} -> {en} (call {when}, injected={injected}) must not fail the hash: exit {:?}, stdout {:?}, stderr {:?}", out.status.code(), so.trim(), se.trim()));
        }
    } else if ok_exit {
        // a hard read error was injected and yet a (correct) digest came out: the error was swallowed and
        // the data re-read, or the read was not needed; only the former would be wrong, and it cannot
        // produce the right digest without re-reading, so this is accepted
        sh.probe("hard_read_error_but_correct_digest");
    } else if is_b3sum && so.contains(&want_hex) {
        return viol("exit-status", "b3sum printed the digest and failed".into());
    }
    sh.shape(Fnv::of(&[7, target % 5, syscall % 3, errno % 5, when.min(6) as u8, injected as u8, ok_exit as u8, (content.len() >= 16384) as u8]));
    Ok(Fnv::of(so.as_bytes()) ^ out.status.code().unwrap_or(-1) as u64)
}


/// a FIFO whose writer delivers the data in two pieces: each of the three adapters must hash all of it
fn fifo_kind(sh: &Arc<Shared>) -> OpResult {
    let dir = sh.scratch_dir()?;
    let data: Vec<u8> = (0..150_000usize).map(|i| (i as u8).wrapping_mul(17) ^ (i >> 8) as u8).collect();
    let want = *blake3::hash(&data).as_bytes();
    let pool = rayon_core::ThreadPoolBuilder::new().num_threads(2).build().map_err(|e| OpErr::Harness(e.to_string()))?;
    for which in 0..3 {
        let p = dir.join(format!("fifo{which}"));
        let c = std::ffi::CString::new(p.as_os_str().as_bytes()).unwrap();
        if unsafe { libc::mkfifo(c.as_ptr(), 0o600) } != 0 {
            sh.probe("special_file_absent_skipped");
            return Err(OpErr::Skip);
        }
        let d2 = data.clone();
        let p2 = p.clone();
        let writer = std::thread::spawn(move || {
            if let Ok(mut f) = std::fs::OpenOptions::new().write(true).open(&p2) {
                let _ = f.write_all(&d2[..70_000]);
                let _ = f.flush();
                std::thread::sleep(std::time::Duration::from_millis(40));
                let _ = f.write_all(&d2[70_000..]);
            }
        });
        let mut h = blake3::Hasher::new();
        let r: std::io::Result<()> = match which {
            0 => h.update_mmap(&p).map(|_| ()),
            1 => pool.install(|| h.update_mmap_rayon(&p).map(|_| ())),
            _ => std::fs::File::open(&p).and_then(|f| h.update_reader(f).map(|_| ())),
        };
        let _ = writer.join();
        let _ = std::fs::remove_file(&p);
        match r {
            Err(e) => return viol("result-mismatch", format!("FIFO: adapter {which} failed: {e}")),
            Ok(()) => {
                if h.count() != data.len() as u64 || *h.finalize().as_bytes() != want {
                    return viol("result-mismatch", format!("FIFO delivered in two writes: adapter {} hashed {} of {} bytes", ["update_mmap", "update_mmap_rayon", "update_reader"][which], h.count(), data.len()));
                }
            }
        }
    }
    sh.probe("special_fifo_two_writes");
    Ok(Fnv::of(&want))
}
