//! hazmat merges and helpers, guts, Debug / Zeroize probes.

use crate::exec::*;
use crate::model::{self, MMode};
use crate::ops::{d, first_diff, hx, mmode};
use crate::plan::*;
use crate::rng::Fnv;
use std::sync::Arc;
#[cfg(not(feature = "full"))]
use crate::lean::LeanZeroize;
#[cfg(feature = "full")]
use zeroize::Zeroize;

macro_rules! get {
    ($local:expr, $slot:expr, $variant:ident) => {
        match $local.slots.get_mut(&$slot) {
            Some(Slot::$variant(x)) => x,
            _ => return Err(OpErr::Skip),
        }
    };
}

fn hazmat_mode<'a>(m: &'a MMode) -> Option<blake3::hazmat::Mode<'a>> {
    match m {
        MMode::Hash => Some(blake3::hazmat::Mode::Hash),
        MMode::Keyed(k) => Some(blake3::hazmat::Mode::KeyedHash(k)),
        MMode::ContextKey(k) => Some(blake3::hazmat::Mode::DeriveKeyMaterial(k)),
        MMode::Derive(_) => None,
    }
}

/// MMode::Derive(ctx) as the equivalent context-key mode (what hazmat callers must use)
fn to_hazmat_mmode(m: &MMode) -> MMode {
    match m {
        MMode::Derive(c) => MMode::ContextKey(model::context_key(c)),
        other => other.clone(),
    }
}

unsafe fn raw_bytes<T>(x: &T) -> Vec<u8> {
    std::slice::from_raw_parts(x as *const T as *const u8, std::mem::size_of::<T>()).to_vec()
}

/// secret words that must never show up in Debug output
fn secret_words(mode: &MMode, absorbed: &[u8]) -> Vec<u32> {
    let mut w = Vec::new();
    let mut push = |b: &[u8]| {
        for c in b.chunks_exact(4).take(16) {
            w.push(u32::from_le_bytes([c[0], c[1], c[2], c[3]]));
        }
    };
    match mode {
        MMode::Keyed(k) | MMode::ContextKey(k) => push(k),
        MMode::Derive(c) => push(&model::context_key(c)),
        MMode::Hash => {}
    }
    push(absorbed);
    w.retain(|x| *x > 0xFFFF); // small words collide with lengths and flags by chance
    w
}

fn debug_leaks(text: &str, words: &[u32], bytes: &[u8]) -> Option<String> {
    // numbers printed in the text, as whole tokens
    let toks: Vec<&str> = text.split(|c: char| !c.is_ascii_alphanumeric()).filter(|t| !t.is_empty()).collect();
    for w in words {
        if *w < (1 << 24) {
            continue;
        }
        let reps = [format!("{}", w), format!("{:x}", w), format!("{:08x}", w), format!("{:X}", w), format!("0x{:x}", w)];
        for t in &toks {
            if reps.iter().any(|r| r == t || r.trim_start_matches("0x") == t.trim_start_matches("0x")) {
                return Some(format!("Debug output contains secret word {t}"));
            }
        }
    }
    // byte-list rendering, e.g. "[17, 203, 5, 99"
    if bytes.len() >= 4 && bytes[..4].iter().any(|b| *b > 1) {
        let pat = format!("{}, {}, {}, {}", bytes[0], bytes[1], bytes[2], bytes[3]);
        if text.contains(&pat) {
            return Some(format!("Debug output contains secret bytes \"{pat}\""));
        }
    }
    None
}

/// after zeroize: no window of >= 8 consecutive non-zero bytes that survived unchanged
fn stale_window(p: &[u8], q: &[u8]) -> Option<usize> {
    let mut run = 0;
    for i in 0..p.len().min(q.len()) {
        if q[i] != 0 && q[i] == p[i] {
            run += 1;
            if run >= 8 {
                return Some(i + 1 - 8);
            }
        } else {
            run = 0;
        }
    }
    None
}

pub fn do_op2(sh: &Arc<Shared>, local: &mut TaskLocal, op: &Op) -> OpResult {
    match op {
        Op::Merge { l, r, mode, kind, out, n } => {
            let lc = match local.slots.get(l) {
                Some(Slot::Cv(c)) => c.clone(),
                _ => return Err(OpErr::Skip),
            };
            let rc = match local.slots.get(r) {
                Some(Slot::Cv(c)) => c.clone(),
                _ => return Err(OpErr::Skip),
            };
            let m = to_hazmat_mmode(&mmode(sh, mode)?);
            // key and child CVs at reused addresses, each preceded by a decoy call (see stable.rs)
            let m = match m {
                MMode::Keyed(k) => {
                    let d = crate::stable::place_decoy(0, &k);
                    let _ = blake3::hazmat::merge_subtrees_non_root(crate::stable::place_decoy(1, &lc.cv), crate::stable::place_decoy(2, &rc.cv), blake3::hazmat::Mode::KeyedHash(d));
                    MMode::Keyed(*crate::stable::place(0, &k))
                }
                MMode::ContextKey(k) => {
                    let d = crate::stable::place_decoy(0, &k);
                    let _ = blake3::hazmat::merge_subtrees_non_root(crate::stable::place_decoy(1, &lc.cv), crate::stable::place_decoy(2, &rc.cv), blake3::hazmat::Mode::DeriveKeyMaterial(d));
                    MMode::ContextKey(*crate::stable::place(0, &k))
                }
                other => other,
            };
            let stable_key: Option<&'static [u8; 32]> = match &m {
                MMode::Keyed(k) | MMode::ContextKey(k) => Some(crate::stable::place(0, k)),
                _ => None,
            };
            let hm = match (&m, stable_key) {
                (MMode::Hash, _) => blake3::hazmat::Mode::Hash,
                (MMode::Keyed(_), Some(k)) => blake3::hazmat::Mode::KeyedHash(k),
                (MMode::ContextKey(_), Some(k)) => blake3::hazmat::Mode::DeriveKeyMaterial(k),
                _ => return Err(OpErr::Skip),
            };
            let mut lc = lc;
            let mut rc = rc;
            let (lcv, rcv) = (crate::stable::place(1, &lc.cv), crate::stable::place(2, &rc.cv));
            lc.cv = *lcv;
            rc.cv = *rcv;
            let (k, f) = m.key_flags();
            let lw = model::key_words(&lc.cv);
            let rw = model::key_words(&rc.cv);
            let node = model::parent_node(&k, f, &lw, &rw);
            // the bytes covered, when both children are adjacent
            let (bytes, off) = match (&lc.bytes, &rc.bytes) {
                (Some(a), Some(b)) if rc.off == lc.off.wrapping_add(a.len() as u64) => {
                    let mut v = a.clone();
                    v.extend_from_slice(b);
                    (Some(v), lc.off)
                }
                _ => (None, lc.off),
            };
            // is this the root of a valid decomposition of `bytes` (by the model's account)?
            let whole_root = match &bytes {
                Some(b) if off == 0 && b.len() > 1024 => {
                    let want = m.root(b);
                    if want.m == node.m && want.h == node.h && want.d == node.d { Some(b.clone()) } else { None }
                }
                _ => None,
            };
            match kind {
                MergeKind::NonRoot => {
                    let got = blake3::hazmat::merge_subtrees_non_root(lcv, rcv, hm);
                    let want = node.cv_bytes();
                    if got != want {
                        return viol("result-mismatch", format!("merge_subtrees_non_root got {} want spec {}", hx(&got), hx(&want)));
                    }
                    local.slots.insert(*out, Slot::Cv(CvSlot { cv: got, mode: m.clone(), bytes, off }));
                    Ok(Fnv::of(&got))
                }
                MergeKind::Root => {
                    let got = *blake3::hazmat::merge_subtrees_root(lcv, rcv, hm).as_bytes();
                    let want = node.root_hash();
                    if got != want {
                        return viol("result-mismatch", format!("merge_subtrees_root got {} want spec {}", hx(&got), hx(&want)));
                    }
                    if let Some(b) = whole_root {
                        let os = crate::ops::oneshot(&m, &b);
                        if got != os {
                            return viol("result-mismatch", format!("subtree composition {} != one-shot hash {} of the {}-byte input", hx(&got), hx(&os), b.len()));
                        }
                        sh.probe("decomposition_root_equals_oneshot");
                    }
                    Ok(Fnv::of(&got))
                }
                MergeKind::RootXof => {
                    let mut rd = blake3::hazmat::merge_subtrees_root_xof(lcv, rcv, hm);
                    let mut buf = vec![0u8; *n];
                    rd.fill(&mut buf);
                    let want = node.stream(0, *n);
                    if buf != want {
                        let i = first_diff(&buf, &want);
                        return viol("result-mismatch", format!("merge_subtrees_root_xof differs from spec at byte {i}"));
                    }
                    if let Some(b) = whole_root {
                        let tw = crate::ops::twin_xof(&m, &b, 0, *n);
                        if buf != tw {
                            return viol("result-mismatch", format!("subtree composition xof differs from Hasher::finalize_xof of the {}-byte input", b.len()));
                        }
                        sh.probe("decomposition_xof_equals_hasher");
                    }
                    let dg = Fnv::of(&buf);
                    local.slots.insert(*out, Slot::R(Box::new(RSlot { r: rd, node, pos: *n as u64 })));
                    Ok(dg)
                }
            }
        }
        Op::HelperLeftLen { n } => {
            if *n <= 1024 {
                return Err(OpErr::Skip);
            }
            let got = blake3::hazmat::left_subtree_len(*n);
            let want = model::largest_pow2_below(*n);
            if got != want {
                return viol("result-mismatch", format!("left_subtree_len({}) = {} want {}", n, got, want));
            }
            if *n > (1u64 << 63) {
                sh.probe("left_subtree_len_above_2^63");
            }
            Ok(got)
        }
        Op::HelperMaxLen { off } => {
            if *off == 0 || off % 1024 != 0 {
                return Err(OpErr::Skip);
            }
            let got = blake3::hazmat::max_subtree_len(*off);
            let want = 1024u64 << (off / 1024).trailing_zeros();
            if got != Some(want) {
                return viol("result-mismatch", format!("max_subtree_len({}) = {:?} want {}", off, got, want));
            }
            Ok(want)
        }
        #[allow(deprecated)]
        Op::GutsChunk { data, off, len, counter, cuts, is_root, out } => {
            let bytes = d(sh, *data, *off, *len)?;
            if bytes.len() > 1024 || (*is_root && *counter != 0) {
                return Err(OpErr::Skip);
            }
            let mut cs = blake3::guts::ChunkState::new(*counter);
            let mut at = 0usize;
            for c in cuts {
                let c = (*c as usize).min(bytes.len() - at);
                cs.update(&bytes[at..at + c]);
                at += c;
                if cs.len() != at {
                    return viol("count-mismatch", format!("guts::ChunkState::len()={} after {} bytes", cs.len(), at));
                }
            }
            cs.update(&bytes[at..]);
            if cs.len() != bytes.len() {
                return viol("count-mismatch", format!("guts::ChunkState::len()={} after {} bytes", cs.len(), bytes.len()));
            }
            // Debug text of the legacy ChunkState goes to the self-composition judge (C17)
            let text = format!("{:?}", cs);
            sh.stats.lock().unwrap().blobs.push((local.id, 0, format!("debug:guts:{}", out), text.clone().into_bytes(), vec![]));
            let got = *cs.finalize(*is_root).as_bytes();
            // ... and again after finalize, and of a clone (nothing computed from the input may have been kept for printing)
            let text2 = format!("{:?}|{:#?}", cs, cs.clone());
            sh.stats.lock().unwrap().blobs.push((local.id, 0, format!("debug:guts-after-finalize:{}", out), text2.into_bytes(), vec![]));
            let node = model::chunk_node(&model::IV, 0, bytes, *counter);
            let want = if *is_root { node.root_hash() } else { node.cv_bytes() };
            if got != want {
                return viol("result-mismatch", format!("guts chunk (counter {}, {} bytes, root {}) got {} want spec {}", counter, bytes.len(), is_root, hx(&got), hx(&want)));
            }
            if *counter >= 1 << 32 {
                sh.probe("guts_chunk_counter_ge_2^32");
            }
            let boff = counter.wrapping_mul(1024);
            local.slots.insert(*out, Slot::Cv(CvSlot { cv: got, mode: MMode::Hash, bytes: Some(bytes.to_vec()), off: boff }));
            Ok(Fnv::of(&got))
        }
        #[allow(deprecated)]
        Op::GutsParent { l, r, is_root, out } => {
            let lc = match local.slots.get(l) {
                Some(Slot::Cv(c)) => c.clone(),
                _ => return Err(OpErr::Skip),
            };
            let rc = match local.slots.get(r) {
                Some(Slot::Cv(c)) => c.clone(),
                _ => return Err(OpErr::Skip),
            };
            let root = *is_root;
            let got = crate::stable::with_hashes(&lc.cv, &rc.cv, |a, b| *blake3::guts::parent_cv(a, b, root).as_bytes());
            let node = model::parent_node(&model::IV, 0, &model::key_words(&lc.cv), &model::key_words(&rc.cv));
            let want = if *is_root { node.root_hash() } else { node.cv_bytes() };
            if got != want {
                return viol("result-mismatch", format!("guts::parent_cv(root {}) got {} want spec {}", is_root, hx(&got), hx(&want)));
            }
            let (bytes, off) = match (&lc.bytes, &rc.bytes) {
                (Some(a), Some(b)) if rc.off == lc.off.wrapping_add(a.len() as u64) => {
                    let mut v = a.clone();
                    v.extend_from_slice(b);
                    (Some(v), lc.off)
                }
                _ => (None, lc.off),
            };
            if *is_root {
                if let Some(b) = &bytes {
                    if off == 0 {
                        let want_root = MMode::Hash.root(b);
                        if want_root.m == node.m {
                            let os = crate::ops::oneshot(&MMode::Hash, b);
                            if got != os {
                                return viol("result-mismatch", format!("guts composition != one-shot hash of the {}-byte input", b.len()));
                            }
                            sh.probe("guts_root_equals_oneshot");
                        }
                    }
                }
            }
            local.slots.insert(*out, Slot::Cv(CvSlot { cv: got, mode: MMode::Hash, bytes, off }));
            Ok(Fnv::of(&got))
        }
        Op::DebugFmt { slot, pretty } => {
            let (text, words, first): (String, Vec<u32>, Vec<u8>) = match local.slots.get(slot) {
                Some(Slot::H(hs)) => {
                    let t = if *pretty { format!("{:#?}", hs.h) } else { format!("{:?}", hs.h) };
                    (t, secret_words(&hs.mode, &hs.absorbed), hs.absorbed.iter().take(4).copied().collect())
                }
                Some(Slot::R(rs)) => {
                    let t = if *pretty { format!("{:#?}", rs.r) } else { format!("{:?}", rs.r) };
                    // the reader's secrets: its root node words
                    let mut w: Vec<u32> = rs.node.h.iter().chain(rs.node.m.iter()).copied().filter(|x| *x > 0xFFFF).collect();
                    w.dedup();
                    (t, w, vec![])
                }
                _ => return Err(OpErr::Skip),
            };
            if let Some(m) = debug_leaks(&text, &words, &first) {
                return viol("leak-debug", m);
            }
            sh.probe("debug_formatted");
            sh.stats.lock().unwrap().blobs.push((local.id, 0, format!("debug:{}", slot), text.clone().into_bytes(), vec![]));
            // positions, counts, flags and the platform are allowed in the text; the digest keeps all of it
            Ok(Fnv::of(text.as_bytes()))
        }
        Op::Zeroize { slot } => {
            let s = local.slots.remove(slot);
            let (what, p, q): (&str, Vec<u8>, Vec<u8>) = match s {
                Some(Slot::H(mut hs)) => {
                    if hs.absorbed.len() % 1024 >= 8 {
                        sh.probe("zeroize_hasher_with_partial_block");
                    }
                    if (hs.absorbed.len() / 1024).count_ones() >= 2 {
                        sh.probe("zeroize_hasher_with_stack_ge2");
                    }
                    let p = unsafe { raw_bytes(&hs.h) };
                    hs.h.zeroize();
                    let q = unsafe { raw_bytes(&hs.h) };
                    ("Hasher", p, q)
                }
                Some(Slot::R(mut rs)) => {
                    if rs.pos % 64 != 0 {
                        sh.probe("zeroize_reader_mid_block");
                    }
                    let p = unsafe { raw_bytes(&rs.r) };
                    rs.r.zeroize();
                    let q = unsafe { raw_bytes(&rs.r) };
                    ("OutputReader", p, q)
                }
                Some(Slot::Cv(c)) => {
                    // a Hash has alignment 1: a field behind a one-byte tag sits at any address. Every offset mod 8:
                    #[cfg(feature = "full")]
                    for k in 0..8usize {
                        let mut store = [0xA5u8; 48];
                        let at = store.as_ptr() as usize;
                        let shift = (8 - at % 8) % 8 + k;
                        let hp = unsafe { store.as_mut_ptr().add(shift) as *mut blake3::Hash };
                        unsafe {
                            hp.write(blake3::Hash::from_bytes(c.cv));
                            (*hp).zeroize();
                        }
                        if store[shift..shift + 32].iter().any(|b| *b != 0) {
                            return viol("leak-zeroize", format!("Hash at an address that is {k} mod 8: not all-zero after zeroize() ({})", hx(&store[shift..shift + 32])));
                        }
                        if store[..shift].iter().chain(store[shift + 32..].iter()).any(|b| *b != 0xA5) {
                            return viol("canary", format!("Hash::zeroize at an address that is {k} mod 8 wrote outside the object"));
                        }
                    }
                    let mut h = blake3::Hash::from_bytes(c.cv);
                    let p = unsafe { raw_bytes(&h) };
                    h.zeroize();
                    let q = unsafe { raw_bytes(&h) };
                    if q.iter().any(|b| *b != 0) {
                        return viol("leak-zeroize", "Hash not all-zero after zeroize()".into());
                    }
                    ("Hash", p, q)
                }
                _ => return Err(OpErr::Skip),
            };
            if let Some(i) = stale_window(&p, &q) {
                return viol("leak-zeroize", format!("{what}: 8 bytes at offset {i} of the object survived zeroize() unchanged ({})", hx(&q[i..i + 8])));
            }
            sh.probe("zeroized");
            sh.stats.lock().unwrap().blobs.push((local.id, 1, format!("zeroize:{}:{}", what, slot), p, q));
            Ok(0x2e40)
        }
        _ => Err(OpErr::Skip),
    }
}
