//! hazmat merges and helpers, guts, Debug / Zeroize probes.

use crate::exec::*;
use crate::plan::*;
use std::sync::Arc;

pub fn do_op2(_sh: &Arc<Shared>, _local: &mut TaskLocal, _op: &Op) -> OpResult {
    Err(OpErr::Skip)
}
