//! plan(seed): pure generation of plans, one generator per family.

use crate::plan::*;
use crate::rng::{mix, Rng};

pub const KIB: usize = 1024;

/// boundary-biased length in 0..=max
pub fn size(r: &mut Rng, max: usize) -> usize {
    let v = match r.below(16) {
        0 => *r.pick(&[0usize, 1, 2, 31, 32, 33]),
        1 => *r.pick(&[63usize, 64, 65, 127, 128, 129]),
        2 => *r.pick(&[1023usize, 1024, 1025, 2047, 2048, 2049]),
        3 | 4 => {
            // k chunks +-1
            let k = 1 + r.usize_below((max / KIB).max(1));
            (k * KIB + 1).saturating_sub(r.usize_below(3))
        }
        5 | 6 => {
            // 2^j chunks +-1
            let jmax = (usize::BITS - 1 - (max / KIB).max(1).leading_zeros()) as u64;
            let j = r.below(jmax + 1);
            ((KIB << j) + 1).saturating_sub(r.usize_below(3))
        }
        7 => *r.pick(&[4usize, 8, 16, 32]) * KIB + r.usize_below(2) * (1 + r.usize_below(KIB)),
        8 | 9 => r.usize_below(200),
        10 | 11 => r.usize_below(4 * KIB + 1),
        12 | 13 => r.usize_below(40 * KIB + 1),
        _ => r.usize_below(max + 1),
    };
    v.min(max)
}

pub fn data_spec(r: &mut Rng, len: usize) -> DataSpec {
    match r.below(8) {
        0 => DataSpec::Periodic { len, start: r.below(251) as u8 },
        1 => DataSpec::Const { len, byte: *r.pick(&[0u8, 0xff, 0x80, 0x42]) },
        _ => DataSpec::Random { seed: r.next(), len },
    }
}

pub fn mode(r: &mut Rng, data: &mut Vec<DataSpec>) -> Mode {
    match r.below(6) {
        0 | 1 => Mode::Hash,
        2 | 3 => {
            data.push(DataSpec::Random { seed: r.next(), len: 32 });
            Mode::Keyed { key: data.len() - 1 }
        }
        4 => {
            let len = match r.below(6) {
                0 => 0,
                1 => 1 + r.usize_below(8),
                2 => 1 + r.usize_below(80),
                3 => 300 + r.usize_below(900), // multi-byte chars => more than one chunk of context
                _ => 10 + r.usize_below(40),
            };
            data.push(DataSpec::Random { seed: r.next(), len });
            Mode::Derive { ctx: data.len() - 1 }
        }
        _ => {
            data.push(DataSpec::Random { seed: r.next(), len: 1 + r.usize_below(40) });
            Mode::ContextKey { ctx: data.len() - 1 }
        }
    }
}

pub fn level(r: &mut Rng, avail: &[Level]) -> Level {
    if r.chance(1, 3) {
        Level::Detect
    } else {
        *r.pick(avail)
    }
}

pub fn schedule(r: &mut Rng) -> Schedule {
    let kind = match r.below(5) {
        0 => SchedKind::Uniform,
        1 => SchedKind::Sticky { switch: 128 },
        2 => SchedKind::Sticky { switch: 26 },
        3 => SchedKind::Sticky { switch: 3 },
        _ => SchedKind::Bursty { points: 1 + r.below(3) as u8, horizon: 1 + r.below(400) as u32 },
    };
    Schedule::Gen { kind, seed: r.next() }
}

pub fn read_chunk(r: &mut Rng) -> u32 {
    match r.below(12) {
        0 | 1 => 1,
        2 => 2 + r.below(62) as u32,
        3 => *r.pick(&[63u32, 64, 65]),
        4 => *r.pick(&[1023u32, 1024, 1025]),
        5 => *r.pick(&[4095u32, 4096, 8191, 8192, 8193]),
        6 => *r.pick(&[65535u32, 65536, 65537]),
        7 => 1 + r.below(3000) as u32,
        8 => 1 + r.below(70000) as u32,
        _ => 1 << 20,
    }
}

/// fault-free reader script
pub fn clean_script(r: &mut Rng) -> ReaderScript {
    let n = match r.below(4) {
        0 => 0,
        1 => r.usize_below(4),
        _ => r.usize_below(40),
    };
    let steps = (0..n).map(|_| RStep::Data(read_chunk(r))).collect();
    ReaderScript { steps, junk: r.chance(1, 2), tail_chunk: if r.chance(1, 3) { read_chunk(r) } else { 0 } }
}

/// random faulty script
pub fn faulty_script(r: &mut Rng) -> ReaderScript {
    let mut s = clean_script(r);
    let n = s.steps.len() + 1 + r.usize_below(6);
    let p_int = r.below(40) as u64;
    let mut steps = Vec::new();
    let mut src = s.steps.into_iter();
    for _ in 0..n {
        let x = r.below(100);
        if x < p_int {
            steps.push(RStep::Interrupted);
        } else if x < p_int + 3 {
            steps.push(RStep::Err(r.below(8) as u8));
        } else if x < p_int + 5 {
            steps.push(RStep::Eof);
        } else {
            steps.push(src.next().unwrap_or_else(|| RStep::Data(read_chunk(r))));
        }
    }
    s.steps = steps;
    s
}

pub fn reader_via(r: &mut Rng, script: ReaderScript) -> AbsorbVia {
    match r.below(4) {
        0 => AbsorbVia::IoCopy(script),
        1 => AbsorbVia::ReaderDyn(script),
        _ => AbsorbVia::Reader(script),
    }
}

fn source_len(r: &mut Rng, max: usize) -> usize {
    let v = match r.below(10) {
        0 => *r.pick(&[0usize, 1, 2]),
        1 | 2 => {
            let k = 1 + r.usize_below(4);
            (k * 65536 + 1).saturating_sub(r.usize_below(3))
        }
        3 => *r.pick(&[8191usize, 8192, 8193, 16383, 16384, 16385]),
        4 | 5 => size(r, 70 * KIB),
        6 => r.usize_below(max + 1),
        _ => r.usize_below(8 * KIB),
    };
    v.min(max)
}

pub struct GenCtx<'a> {
    pub tier_thorough: bool,
    pub avail: &'a [Level],
}

fn single(prop: &str, family: &str, seed: u64, cfg: Cfg, data: Vec<DataSpec>, lvl: Level, ops: Vec<Op>) -> Plan {
    Plan {
        prop: prop.into(),
        family: family.into(),
        seed,
        cfg,
        data,
        tasks: vec![TaskPlan { level: lvl, ops }],
        schedule: Schedule::Explicit { choices: vec![] },
    }
}

// ---------------------------------------------------------------------------------------------
// C11 reader half. Run i: base plan = i / VARIANTS, variant = i % VARIANTS.
// variant 0: the base (fault-free) plan; 1: random faulty script;
// 2.. : systematic enumeration, fault kind (4) x call index (0..C11_IDX)

pub const C11_IDX: usize = 48;
pub const C11_VARIANTS: usize = 2 + 4 * C11_IDX;

pub fn c11_reader(base_seed: u64, i: u64, g: &GenCtx) -> Plan {
    let base = i / C11_VARIANTS as u64;
    let variant = (i % C11_VARIANTS as u64) as usize;
    let seed = mix(base_seed, base);
    let mut r = Rng::new(seed);
    let max = if g.tier_thorough { 1 << 20 } else { 300 * KIB };
    let mut data = Vec::new();
    let len = source_len(&mut r, max);
    data.push(data_spec(&mut r, len));
    let prefix = if r.chance(1, 3) { size(&mut r, 3 * KIB) } else { 0 };
    data.push(DataSpec::Random { seed: r.next(), len: prefix.max(200) });
    let m = mode(&mut r, &mut data);
    let lvl = level(&mut r, g.avail);
    let mut script = clean_script(&mut r);
    // a separate stream for the variant so that the base stays identical across variants
    let mut vr = Rng::new(mix(seed, 0x11 + variant as u64));
    if variant == 1 {
        script = faulty_script(&mut vr);
    } else if variant >= 2 {
        let kind = (variant - 2) / C11_IDX;
        let idx = (variant - 2) % C11_IDX;
        // materialise default reads so that index idx exists in the script
        while script.steps.len() < idx {
            let k = if script.tail_chunk == 0 { 1 << 20 } else { script.tail_chunk };
            script.steps.push(RStep::Data(k));
        }
        let st = match kind {
            0 => RStep::Interrupted,
            1 => RStep::Err(vr.below(8) as u8),
            2 => RStep::Data(1),
            _ => RStep::Eof,
        };
        script.steps.insert(idx, st);
    }
    let via = reader_via(&mut r, script);
    let mut ops = vec![Op::NewHasher { slot: 0, mode: m, via: NewVia::Inherent }];
    if prefix > 0 {
        ops.push(Op::Absorb { h: 0, data: 1, off: 0, len: prefix, via: AbsorbVia::Update });
    }
    ops.push(Op::Absorb { h: 0, data: 0, off: 0, len, via });
    ops.push(Op::Count { h: 0 });
    ops.push(Op::Finalize { h: 0, via: FinVia::Inherent });
    if r.chance(1, 2) {
        // the hasher remains usable after an error: continue and compare again
        let more = 1 + r.usize_below(200);
        let via2 = match r.below(3) {
            0 => AbsorbVia::Write,
            1 => reader_via(&mut r, clean_script(&mut vr)),
            _ => AbsorbVia::Update,
        };
        ops.push(Op::Absorb { h: 0, data: 1, off: 0, len: more, via: via2 });
        ops.push(Op::FinalizeXof { h: 0, r: None, n: 1 + r.usize_below(130), via: FinVia::Inherent });
    }
    single("C11", "c11-reader", seed ^ variant as u64, Cfg::default(), data, lvl, ops)
}

// ---------------------------------------------------------------------------------------------
// C11 file half: update_mmap / update_mmap_rayon / update_reader(File) agree on regular files

pub fn c11_file(base_seed: u64, i: u64, g: &GenCtx) -> Plan {
    let seed = mix(base_seed ^ 0xF11E, i);
    let mut r = Rng::new(seed);
    let len = match r.below(8) {
        0 | 1 | 2 => 16380 + r.usize_below(11),
        3 => *r.pick(&[0usize, 1, 1024, 4096, 16383 - 4096]),
        4 => 65535 + r.usize_below(3),
        5 => size(&mut r, if g.tier_thorough { 4 << 20 } else { 1 << 20 }),
        _ => r.usize_below(40 * KIB),
    };
    let mut data = vec![data_spec(&mut r, len)];
    data.push(DataSpec::Random { seed: r.next(), len: 3000 });
    let m = mode(&mut r, &mut data);
    let lvl = level(&mut r, g.avail);
    let mut ops = Vec::new();
    let prefix = if r.chance(1, 3) { size(&mut r, 3000) } else { 0 };
    for (slot, via) in [AbsorbVia::Mmap, AbsorbVia::MmapRayon, AbsorbVia::ReaderFile].into_iter().enumerate() {
        ops.push(Op::NewHasher { slot, mode: m.clone(), via: NewVia::Inherent });
        if prefix > 0 {
            ops.push(Op::Absorb { h: slot, data: 1, off: 0, len: prefix, via: AbsorbVia::Update });
        }
        ops.push(Op::Absorb { h: slot, data: 0, off: 0, len, via });
        ops.push(Op::Finalize { h: slot, via: FinVia::Inherent });
        ops.push(Op::FinalizeXof { h: slot, r: None, n: 70, via: FinVia::Inherent });
    }
    single("C11", "c11-file", seed, Cfg::default(), data, lvl, ops)
}
