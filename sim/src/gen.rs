//! plan(seed): pure generation of plans, one generator per family.

use crate::plan::*;
use crate::rng::{mix, Rng};

pub const KIB: usize = 1024;

/// boundary-biased length in 0..=max
pub fn size(r: &mut Rng, max: usize) -> usize {
    let v = match r.below(16) {
        0 => *r.pick(&[0usize, 1, 2, 31, 32, 33]),
        1 => *r.pick(&[63usize, 64, 65, 127, 128, 129]),
        2 => *r.pick(&[1023usize, 1024, 1025, 2047, 2048, 2049]),
        3 | 4 => {
            // k chunks +-1
            let k = 1 + r.usize_below((max / KIB).max(1));
            (k * KIB + 1).saturating_sub(r.usize_below(3))
        }
        5 | 6 => {
            // 2^j chunks +-1
            let jmax = (usize::BITS - 1 - (max / KIB).max(1).leading_zeros()) as u64;
            let j = r.below(jmax + 1);
            ((KIB << j) + 1).saturating_sub(r.usize_below(3))
        }
        7 => *r.pick(&[4usize, 8, 16, 32]) * KIB + r.usize_below(2) * (1 + r.usize_below(KIB)),
        8 | 9 => r.usize_below(200),
        10 | 11 => r.usize_below(4 * KIB + 1),
        12 | 13 => r.usize_below(40 * KIB + 1),
        _ => r.usize_below(max + 1),
    };
    v.min(max)
}

pub fn data_spec(r: &mut Rng, len: usize) -> DataSpec {
    match r.below(8) {
        0 => DataSpec::Periodic { len, start: r.below(251) as u8 },
        1 => DataSpec::Const { len, byte: *r.pick(&[0u8, 0xff, 0x80, 0x42]) },
        _ => DataSpec::Random { seed: r.next(), len },
    }
}

pub fn mode(r: &mut Rng, data: &mut Vec<DataSpec>) -> Mode {
    match r.below(6) {
        0 | 1 => Mode::Hash,
        2 | 3 => {
            // now and then a key that is legal but looks like "no key" (all zero) or like a mask (all ones)
            match r.below(12) {
                0 => data.push(DataSpec::Const { len: 32, byte: 0x00 }),
                1 => data.push(DataSpec::Const { len: 32, byte: 0xFF }),
                _ => data.push(DataSpec::Random { seed: r.next(), len: 32 }),
            }
            Mode::Keyed { key: data.len() - 1 }
        }
        4 => {
            let len = match r.below(6) {
                0 => 0,
                1 => 1 + r.usize_below(8),
                2 => 1 + r.usize_below(80),
                3 => 300 + r.usize_below(900), // multi-byte chars => more than one chunk of context
                _ => 10 + r.usize_below(40),
            };
            data.push(DataSpec::Random { seed: r.next(), len });
            Mode::Derive { ctx: data.len() - 1 }
        }
        _ => {
            data.push(DataSpec::Random { seed: r.next(), len: 1 + r.usize_below(40) });
            Mode::ContextKey { ctx: data.len() - 1 }
        }
    }
}

pub fn level(r: &mut Rng, avail: &[Level]) -> Level {
    if r.chance(1, 3) {
        Level::Detect
    } else {
        *r.pick(avail)
    }
}

pub fn schedule(r: &mut Rng) -> Schedule {
    let kind = match r.below(7) {
        5 | 6 => SchedKind::Pct { depth: r.below(4) as u8, horizon: 1 + r.below(600) as u32 },
        0 => SchedKind::Uniform,
        1 => SchedKind::Sticky { switch: 128 },
        2 => SchedKind::Sticky { switch: 26 },
        3 => SchedKind::Sticky { switch: 3 },
        _ => SchedKind::Bursty { points: 1 + r.below(3) as u8, horizon: 1 + r.below(400) as u32 },
    };
    Schedule::Gen { kind, seed: r.next() }
}

pub fn read_chunk(r: &mut Rng) -> u32 {
    match r.below(12) {
        0 | 1 => 1,
        2 => 2 + r.below(62) as u32,
        3 => *r.pick(&[63u32, 64, 65]),
        4 => *r.pick(&[1023u32, 1024, 1025]),
        5 => *r.pick(&[4095u32, 4096, 8191, 8192, 8193]),
        6 => *r.pick(&[65535u32, 65536, 65537]),
        7 => 1 + r.below(3000) as u32,
        8 => 1 + r.below(70000) as u32,
        _ => 1 << 20,
    }
}

/// fault-free reader script
pub fn clean_script(r: &mut Rng) -> ReaderScript {
    let n = match r.below(4) {
        0 => 0,
        1 => r.usize_below(4),
        _ => r.usize_below(40),
    };
    let steps = (0..n).map(|_| RStep::Data(read_chunk(r))).collect();
    ReaderScript { steps, junk: r.chance(1, 2), tail_chunk: if r.chance(1, 3) { read_chunk(r) } else { 0 } }
}

/// random faulty script
pub fn faulty_script(r: &mut Rng) -> ReaderScript {
    let mut s = clean_script(r);
    let n = s.steps.len() + 1 + r.usize_below(6);
    let p_int = r.below(40) as u64;
    let mut steps = Vec::new();
    let mut src = s.steps.into_iter();
    for _ in 0..n {
        let x = r.below(100);
        if x < p_int {
            steps.push(RStep::Interrupted);
        } else if x < p_int + 3 {
            steps.push(RStep::Err(r.below(8) as u8));
        } else if x < p_int + 5 {
            steps.push(RStep::Eof);
        } else if x < p_int + 9 {
            steps.push(RStep::Nest(read_chunk(r), 1 + r.below(70000) as u32));
        } else {
            steps.push(src.next().unwrap_or_else(|| RStep::Data(read_chunk(r))));
        }
    }
    s.steps = steps;
    if r.chance(1, 5) {
        add_storms(r, &mut s);
    }
    s
}

/// runs of consecutive Interrupted results (a signal storm): legal, to be retried for as long as it lasts
pub fn add_storms(r: &mut Rng, s: &mut ReaderScript) {
    let storms = 1 + r.usize_below(3);
    for _ in 0..storms {
        let k = match r.below(6) {
            0 => 100 + r.usize_below(400),
            1 => 15 + r.usize_below(5),
            2 => 2 + r.usize_below(6),
            _ => 8 + r.usize_below(9),
        };
        let at = r.usize_below(s.steps.len() + 1);
        for _ in 0..k {
            s.steps.insert(at, RStep::Interrupted);
        }
    }
}

/// fault-free data delivery interrupted by storms
pub fn stormy_script(r: &mut Rng) -> ReaderScript {
    let mut s = clean_script(r);
    add_storms(r, &mut s);
    s
}

pub fn reader_via(r: &mut Rng, script: ReaderScript) -> AbsorbVia {
    match r.below(4) {
        0 => AbsorbVia::IoCopy(script),
        1 => AbsorbVia::ReaderDyn(script),
        _ => AbsorbVia::Reader(script),
    }
}

fn source_len(r: &mut Rng, max: usize) -> usize {
    let v = match r.below(10) {
        0 => *r.pick(&[0usize, 1, 2]),
        1 | 2 => {
            let k = 1 + r.usize_below(4);
            (k * 65536 + 1).saturating_sub(r.usize_below(3))
        }
        3 => *r.pick(&[8191usize, 8192, 8193, 16383, 16384, 16385]),
        4 | 5 => size(r, 70 * KIB),
        6 => r.usize_below(max + 1),
        _ => r.usize_below(8 * KIB),
    };
    v.min(max)
}

pub struct GenCtx<'a> {
    pub tier_thorough: bool,
    pub avail: &'a [Level],
}

fn single(prop: &str, family: &str, seed: u64, cfg: Cfg, data: Vec<DataSpec>, lvl: Level, ops: Vec<Op>) -> Plan {
    Plan {
        prop: prop.into(),
        family: family.into(),
        seed,
        cfg,
        data,
        tasks: vec![TaskPlan { level: lvl, ops }],
        schedule: Schedule::Explicit { choices: vec![] },
    }
}

// ---------------------------------------------------------------------------------------------
// C11 reader half. Run i: base plan = i / VARIANTS, variant = i % VARIANTS.
// variant 0: the base (fault-free) plan; 1: random faulty script;
// 2.. : systematic enumeration, fault kind (4) x call index (0..C11_IDX)

pub const C11_IDX: usize = 48;
pub const C11_VARIANTS: usize = 2 + 4 * C11_IDX;

pub fn c11_reader(base_seed: u64, i: u64, g: &GenCtx) -> Plan {
    let base = i / C11_VARIANTS as u64;
    let variant = (i % C11_VARIANTS as u64) as usize;
    let seed = mix(base_seed, base);
    let mut r = Rng::new(seed);
    let max = if g.tier_thorough { 1 << 20 } else { 300 * KIB };
    let mut data = Vec::new();
    let len = source_len(&mut r, max);
    data.push(data_spec(&mut r, len));
    let prefix = if r.chance(1, 3) { size(&mut r, 3 * KIB) } else { 0 };
    data.push(DataSpec::Random { seed: r.next(), len: prefix.max(200) });
    let m = mode(&mut r, &mut data);
    let lvl = level(&mut r, g.avail);
    let mut script = clean_script(&mut r);
    // a separate stream for the variant so that the base stays identical across variants
    let mut vr = Rng::new(mix(seed, 0x11 + variant as u64));
    if variant == 1 {
        script = faulty_script(&mut vr);
    } else if variant >= 2 {
        let kind = (variant - 2) / C11_IDX;
        let idx = (variant - 2) % C11_IDX;
        // materialise default reads so that index idx exists in the script
        while script.steps.len() < idx {
            let k = if script.tail_chunk == 0 { 1 << 20 } else { script.tail_chunk };
            script.steps.push(RStep::Data(k));
        }
        let st = match kind {
            0 => RStep::Interrupted,
            1 => RStep::Err(vr.below(8) as u8),
            2 => RStep::Data(1),
            _ => RStep::Eof,
        };
        script.steps.insert(idx, st);
    }
    let via = reader_via(&mut r, script);
    let mut ops = vec![Op::NewHasher { slot: 0, mode: m, via: NewVia::Inherent }];
    if prefix > 0 {
        ops.push(Op::Absorb { h: 0, data: 1, off: 0, len: prefix, via: AbsorbVia::Update });
    }
    ops.push(Op::Absorb { h: 0, data: 0, off: 0, len, via });
    ops.push(Op::Count { h: 0 });
    ops.push(Op::Finalize { h: 0, via: FinVia::Inherent });
    if r.chance(1, 2) {
        // the hasher remains usable after an error: continue and compare again
        let more = 1 + r.usize_below(200);
        let via2 = match r.below(3) {
            0 => AbsorbVia::Write,
            1 => reader_via(&mut r, clean_script(&mut vr)),
            _ => AbsorbVia::Update,
        };
        ops.push(Op::Absorb { h: 0, data: 1, off: 0, len: more, via: via2 });
        ops.push(Op::FinalizeXof { h: 0, r: None, n: 1 + r.usize_below(130), via: FinVia::Inherent });
    }
    single("C11", "c11-reader", seed ^ variant as u64, Cfg::default(), data, lvl, ops)
}

// ---------------------------------------------------------------------------------------------
// C11 file half: update_mmap / update_mmap_rayon / update_reader(File) agree on regular files

pub fn c11_file(base_seed: u64, i: u64, g: &GenCtx) -> Plan {
    let seed = mix(base_seed ^ 0xF11E, i);
    let mut r = Rng::new(seed);
    let len = match r.below(8) {
        0 | 1 | 2 => 16380 + r.usize_below(11),
        3 => *r.pick(&[0usize, 1, 1024, 4096, 16383 - 4096]),
        4 => 65535 + r.usize_below(3),
        5 => size(&mut r, if g.tier_thorough { 4 << 20 } else { 1 << 20 }),
        _ => r.usize_below(40 * KIB),
    };
    let mut data = vec![data_spec(&mut r, len)];
    data.push(DataSpec::Random { seed: r.next(), len: 3000 });
    let m = mode(&mut r, &mut data);
    let lvl = level(&mut r, g.avail);
    let mut ops = Vec::new();
    let prefix = if r.chance(1, 3) { size(&mut r, 3000) } else { 0 };
    for (slot, via) in [AbsorbVia::Mmap, AbsorbVia::MmapRayon, AbsorbVia::ReaderFile].into_iter().enumerate() {
        ops.push(Op::NewHasher { slot, mode: m.clone(), via: NewVia::Inherent });
        if prefix > 0 {
            ops.push(Op::Absorb { h: slot, data: 1, off: 0, len: prefix, via: AbsorbVia::Update });
        }
        ops.push(Op::Absorb { h: slot, data: 0, off: 0, len, via });
        ops.push(Op::Finalize { h: slot, via: FinVia::Inherent });
        ops.push(Op::FinalizeXof { h: slot, r: None, n: 70, via: FinVia::Inherent });
    }
    single("C11", "c11-file", seed, Cfg::default(), data, lvl, ops)
}

// ---------------------------------------------------------------------------------------------
// shared pieces for hasher histories

pub fn join_policy(r: &mut Rng) -> JoinPolicy {
    match r.below(6) {
        0 => JoinPolicy::AllLeft,
        1 => JoinPolicy::AllRight,
        2 => JoinPolicy::AllConcurrent,
        3 => JoinPolicy::PerSplit { bits: vec![0b01_00_01_00] }, // alternate left/right
        _ => JoinPolicy::PerSplit { bits: (0..1 + r.usize_below(6)).map(|_| r.next() as u8).collect() },
    }
}

pub struct AdapterMix {
    pub io: bool,
    pub rayon: bool,
    pub simjoin: bool,
    pub mmap: bool,
    pub traits: bool,
    /// readers may misbehave and paths may be unhashable (the hasher must stay usable); off where the workload
    /// needs every fragment delivered (a C09 shard)
    pub faulty: bool,
}

pub fn adapter(r: &mut Rng, len: usize, mix: &AdapterMix) -> AbsorbVia {
    let x = r.below(100);
    if x < 45 {
        return AbsorbVia::Update;
    }
    if mix.io && x < 65 {
        // a fifth of the readers misbehave (storms of Interrupted, hard errors, early EOF): what was yielded before
        // an error is absorbed, the hasher stays usable
        if !mix.faulty && r.chance(1, 8) {
            // every byte must arrive here: the caller retries after a reader that stopped early
            return AbsorbVia::ReaderRetry(faulty_script(r));
        }
        let faulty = mix.faulty;
        let mut script = |r: &mut Rng| match r.below(10) {
            0 if faulty => faulty_script(r),
            1 if faulty => stormy_script(r),
            _ => clean_script(r),
        };
        if r.chance(1, 10) {
            // gathered writes: header-sized and payload-sized slices in one call
            let n = 1 + r.usize_below(5);
            let cuts = (0..n).map(|_| *r.pick(&[0u32, 1, 8, 63, 64, 65, 1000, 1023, 1024, 1025, 4096, 70000])).collect();
            return AbsorbVia::WriteVectored { cuts };
        }
        return match r.below(5) {
            0 => AbsorbVia::Write,
            1 => AbsorbVia::WriteAll,
            2 => AbsorbVia::IoCopy(script(r)),
            3 => AbsorbVia::ReaderDyn(script(r)),
            _ => AbsorbVia::Reader(script(r)),
        };
    }
    if mix.io && mix.faulty && x < 67 {
        // a path that cannot be hashed: Err, and the hasher is what it was
        return AbsorbVia::PathError { how: r.below(4) as u8 };
    }
    if mix.simjoin && x < 80 && len > KIB {
        return AbsorbVia::SimJoin(join_policy(r));
    }
    if mix.rayon && x < 86 {
        return AbsorbVia::Rayon { width: r.below(9) as u8 }; // 0 = the process's global pool
    }
    if mix.mmap && x < 89 {
        return r.pick(&[AbsorbVia::Mmap, AbsorbVia::MmapRayon, AbsorbVia::ReaderFile]).clone();
    }
    if mix.traits && x < 96 {
        return r.pick(&[AbsorbVia::TraitUpdate, AbsorbVia::DigestUpdate, AbsorbVia::MacUpdate]).clone();
    }
    AbsorbVia::Update
}

/// fragment sizes for delivering `total` bytes
pub fn fragments(r: &mut Rng, total: usize) -> Vec<usize> {
    let mut out = Vec::new();
    let mut left = total;
    let style = r.below(5);
    let mut guard = 0;
    while left > 0 && guard < 40 {
        guard += 1;
        let f = match style {
            0 => left,                                   // all at once
            1 => size(r, left.min(5 * KIB)),             // small pieces
            2 => size(r, left),                          // anything
            3 => *r.pick(&[1usize, 63, 64, 65, 1023, 1024, 1025, 2048, 4096, 16 * KIB, 17 * KIB]),
            _ => {
                if r.chance(1, 2) { size(r, left) } else { size(r, 3 * KIB) }
            }
        }
        .min(left);
        out.push(f);
        left -= f;
        if r.chance(1, 12) {
            out.push(0); // zero-length call
        }
    }
    if left > 0 {
        out.push(left);
    }
    if total == 0 && r.chance(1, 2) {
        out.push(0);
    }
    out
}

fn multi(prop: &str, family: &str, seed: u64, cfg: Cfg, data: Vec<DataSpec>, tasks: Vec<TaskPlan>, r: &mut Rng) -> Plan {
    let schedule = if tasks.len() > 1 || cfg.pool_width > 1 { schedule(r) } else { Schedule::Explicit { choices: vec![] } };
    Plan { prop: prop.into(), family: family.into(), seed, cfg, data, tasks, schedule }
}

fn query_op(r: &mut Rng, h: usize, traits: bool) -> Op {
    let via = if traits {
        *r.pick(&[FinVia::Inherent, FinVia::TraitClone, FinVia::MacOrDigest])
    } else {
        FinVia::Inherent
    };
    match r.below(4) {
        0 => Op::Count { h },
        1 | 2 => Op::Finalize { h, via },
        _ => Op::FinalizeXof { h, r: None, n: xof_len(r), via },
    }
}

pub fn xof_len(r: &mut Rng) -> usize {
    match r.below(8) {
        0 => *r.pick(&[0usize, 1, 31, 32, 33]),
        1 => *r.pick(&[63usize, 64, 65, 127, 128, 129]),
        2 => 1 + r.usize_below(300),
        3 => *r.pick(&[1023usize, 1024, 1025, 16 * 64 - 1, 16 * 64, 16 * 64 + 1]),
        _ => 1 + r.usize_below(140),
    }
}

// ---------------------------------------------------------------------------------------------
// C02: incremental hashing independent of splitting; finalize is a pure query

pub fn c02(base_seed: u64, i: u64, g: &GenCtx) -> Plan {
    let seed = mix(base_seed ^ 0xC02, i);
    let mut r = Rng::new(seed);
    let max = if g.tier_thorough {
        if r.chance(1, 20) { 4 << 20 } else { 512 * KIB }
    } else if r.chance(1, 12) {
        256 * KIB
    } else {
        48 * KIB
    };
    let ntasks = if r.chance(2, 3) { 1 } else { 2 + r.usize_below(3) };
    let nh = 1 + r.usize_below(3);
    let mut data: Vec<DataSpec> = Vec::new();
    let mut tasks: Vec<Vec<Op>> = vec![Vec::new(); ntasks];
    let mut next_slot = 0usize;
    let mixa = AdapterMix { io: r.chance(3, 4), rayon: r.chance(1, 3), simjoin: r.chance(1, 2), mmap: r.chance(1, 6), traits: false, faulty: true };
    let mut conc = false;
    for _ in 0..nh {
        let total = size(&mut r, max);
        data.push(data_spec(&mut r, total));
        let di = data.len() - 1;
        let m = mode(&mut r, &mut data);
        let t = r.usize_below(ntasks);
        let h = next_slot;
        next_slot += 1;
        tasks[t].push(Op::NewHasher { slot: h, mode: m, via: NewVia::Inherent });
        let mut off = 0usize;
        // (task, slot, current offset) of the live instances of this message
        let mut cur_t = t;
        for f in fragments(&mut r, total) {
            let via = adapter(&mut r, f, &mixa);
            tasks[cur_t].push(Op::Absorb { h, data: di, off, len: f, via });
            off += f;
            let x = r.below(20);
            if x < 7 {
                tasks[cur_t].push(query_op(&mut r, h, false));
            } else if x == 7 {
                // clone; the clone diverges with its own bytes, possibly on another task
                let c = next_slot;
                next_slot += 1;
                tasks[cur_t].push(Op::CloneH { h, new: c });
                let ct = if ntasks > 1 && r.chance(1, 2) {
                    let mut o = r.usize_below(ntasks);
                    if o == cur_t {
                        o = (o + 1) % ntasks;
                    }
                    tasks[cur_t].push(Op::Send { slot: c, to: o });
                    tasks[o].push(Op::Recv { slot: c });
                    o
                } else {
                    cur_t
                };
                let extra = size(&mut r, 6 * KIB);
                data.push(DataSpec::Random { seed: r.next(), len: extra });
                let ei = data.len() - 1;
                let mut eo = 0;
                for ef in fragments(&mut r, extra) {
                    let via = adapter(&mut r, ef, &mixa);
                    tasks[ct].push(Op::Absorb { h: c, data: ei, off: eo, len: ef, via });
                    eo += ef;
                    if r.chance(1, 3) {
                        tasks[ct].push(query_op(&mut r, c, false));
                    }
                }
                tasks[ct].push(Op::Finalize { h: c, via: FinVia::Inherent });
            } else if x == 10 && h > 0 && r.chance(1, 2) {
                // re-seed an older hasher of this task from this one (clone_from keeps the destination object)
                tasks[cur_t].push(Op::CloneFromH { src: h, dst: h - 1 });
                tasks[cur_t].push(Op::Finalize { h: h - 1, via: FinVia::Inherent });
            } else if x == 8 {
                tasks[cur_t].push(Op::ConcurrentFinalize { h, n: xof_len(&mut r) });
                conc = true;
            } else if x == 9 && ntasks > 1 {
                // the hasher itself moves to another caller task
                let mut o = r.usize_below(ntasks);
                if o == cur_t {
                    o = (o + 1) % ntasks;
                }
                tasks[cur_t].push(Op::Send { slot: h, to: o });
                tasks[o].push(Op::Recv { slot: h });
                cur_t = o;
            }
        }
        tasks[cur_t].push(Op::Count { h });
        tasks[cur_t].push(Op::Finalize { h, via: FinVia::Inherent });
        tasks[cur_t].push(Op::FinalizeXof { h, r: None, n: xof_len(&mut r), via: FinVia::Inherent });
        // finalize again: a pure query may be repeated
        if r.chance(1, 2) {
            tasks[cur_t].push(Op::Finalize { h, via: FinVia::Inherent });
        }
    }
    let cfg = Cfg { pool_width: if conc || mixa.simjoin { 2 + r.below(6) as u8 } else { 1 }, ..Cfg::default() };
    let tps = tasks.into_iter().map(|ops| TaskPlan { level: level(&mut r, g.avail), ops }).collect();
    multi("C02", "c02", seed, cfg, data, tps, &mut r)
}

// ---------------------------------------------------------------------------------------------
// C03: extended output is one coherent, seekable stream

pub fn xof_pos(r: &mut Rng) -> u64 {
    match r.below(14) {
        0 => 0,
        1 | 2 => r.below(4096),
        3 => 64 * r.below(100) + *r.pick(&[0u64, 1, 63]),
        4 | 5 => {
            // around block counter 2^32
            let blk = (1u64 << 32).wrapping_sub(r.below(40)).wrapping_add(r.below(40));
            blk * 64 + *r.pick(&[0u64, 1, 31, 32, 63])
        }
        6 => (1u64 << 38) - r.below(3000),
        7 => (1u64 << 38) + r.below(3000),
        8 => (1u64 << 63) - 2000 + r.below(4000),
        9 => u64::MAX - r.below(70000),
        10 => u64::MAX - r.below(200),
        _ => {
            // log-uniform
            let bits = r.below(64);
            r.next() >> (63 - bits)
        }
    }
}

pub fn read_len(r: &mut Rng, thorough: bool) -> usize {
    match r.below(12) {
        0 => 0,
        1 => *r.pick(&[1usize, 31, 32, 33]),
        2 | 3 => *r.pick(&[63usize, 64, 65, 127, 128, 129]),
        4 => *r.pick(&[1023usize, 1024, 1025]),
        5 => *r.pick(&[16 * 64 - 1, 16 * 64, 16 * 64 + 1, 32 * 64 + 5]),
        6 => r.usize_below(if thorough { 128 * KIB } else { 32 * KIB }),
        // one read well beyond 64 KiB of whole blocks (any internal batching of the bulk path shows here)
        7 if r.chance(1, 4) => 64 * KIB + r.usize_below(if thorough { 600 * KIB } else { 200 * KIB }),
        _ => r.usize_below(400),
    }
}

fn reader_ops(r: &mut Rng, rs: usize, n: usize, thorough: bool, traits: bool) -> Vec<Op> {
    let mut ops = Vec::new();
    for _ in 0..n {
        let x = r.below(100);
        if x < 50 {
            let via = match r.below(10) {
                0 => ReadVia::Read,
                1 => ReadVia::ReadExact,
                2 => ReadVia::Take,
                3 => ReadVia::IoCopy,
                4 if traits => ReadVia::XofReader,
                _ => ReadVia::Fill,
            };
            ops.push(Op::Read { r: rs, n: read_len(r, thorough), via });
        } else if x < 62 {
            ops.push(Op::SetPosition { r: rs, p: xof_pos(r) });
        } else if x < 72 {
            ops.push(Op::Seek { r: rs, whence: Whence::Start, v: 0, vu: xof_pos(r) });
        } else if x < 84 {
            // relative seek: small, or large negative (may have to fail)
            let v = match r.below(6) {
                0 => -(r.below(5000) as i64),
                1 => r.below(5000) as i64,
                2 => (xof_pos(r) as i64).checked_abs().map_or(i64::MIN, |x| -x),
                3 => i64::MIN + r.below(10) as i64,
                4 => (r.next() >> 2) as i64,
                _ => -(r.below(130) as i64),
            };
            ops.push(Op::Seek { r: rs, whence: Whence::Current, v, vu: 0 });
        } else if x < 90 {
            let v = *r.pick(&[0i64, -1, -64, 1, i64::MIN, i64::MAX, -1000]);
            ops.push(Op::Seek { r: rs, whence: Whence::End, v, vu: 0 });
        } else {
            ops.push(Op::Position { r: rs });
        }
    }
    ops
}

pub fn c03(base_seed: u64, i: u64, g: &GenCtx) -> Plan {
    let seed = mix(base_seed ^ 0xC03, i);
    let mut r = Rng::new(seed);
    let ntasks = if r.chance(3, 4) { 1 } else { 2 };
    let mut data = Vec::new();
    let mut tasks: Vec<Vec<Op>> = vec![Vec::new(); ntasks];
    let nr = 1 + r.usize_below(2);
    let mut slot = 0;
    for _ in 0..nr {
        let len = match r.below(10) {
            0 => 0,
            1 | 2 => r.usize_below(65),
            3 | 4 => r.usize_below(1025),
            5 => 1025 + r.usize_below(2048),
            6 => size(&mut r, 20 * KIB),
            7 => size(&mut r, if g.tier_thorough { 300 * KIB } else { 70 * KIB }),
            _ => r.usize_below(4 * KIB),
        };
        data.push(data_spec(&mut r, len));
        let di = data.len() - 1;
        let m = mode(&mut r, &mut data);
        let t = r.usize_below(ntasks);
        let h = slot;
        let rs = slot + 1;
        slot += 2;
        tasks[t].push(Op::NewHasher { slot: h, mode: m, via: NewVia::Inherent });
        tasks[t].push(Op::Absorb { h, data: di, off: 0, len, via: AbsorbVia::Update });
        tasks[t].push(Op::FinalizeXof { h, r: Some(rs), n: read_len(&mut r, false).min(300), via: FinVia::Inherent });
        let n1 = 3 + r.usize_below(25);
        let mut ops = reader_ops(&mut r, rs, n1, g.tier_thorough, false);
        let mut cur_t = t;
        if r.chance(1, 4) {
            // clone mid-way; both continue independently
            let c = slot;
            slot += 1;
            let at = r.usize_below(ops.len() + 1);
            ops.insert(at, Op::CloneR { r: rs, new: c });
            tasks[cur_t].extend(ops);
            let n2 = 2 + r.usize_below(10);
            if ntasks > 1 && r.chance(1, 2) {
                let o = (cur_t + 1) % ntasks;
                tasks[cur_t].push(Op::Send { slot: c, to: o });
                tasks[o].push(Op::Recv { slot: c });
                let e = reader_ops(&mut r, c, n2, g.tier_thorough, false);
                tasks[o].extend(e);
            } else {
                let e = reader_ops(&mut r, c, n2, g.tier_thorough, false);
                tasks[cur_t].extend(e);
            }
            let n3 = 1 + r.usize_below(6);
            let e = reader_ops(&mut r, rs, n3, g.tier_thorough, false);
            tasks[cur_t].extend(e);
        } else {
            tasks[cur_t].extend(ops);
            if ntasks > 1 && r.chance(1, 3) {
                let o = (cur_t + 1) % ntasks;
                tasks[cur_t].push(Op::Send { slot: rs, to: o });
                tasks[o].push(Op::Recv { slot: rs });
                cur_t = o;
                let n4 = 2 + r.usize_below(10);
                let e = reader_ops(&mut r, rs, n4, g.tier_thorough, false);
                tasks[cur_t].extend(e);
            }
        }
    }
    let tps = tasks.into_iter().map(|ops| TaskPlan { level: level(&mut r, g.avail), ops }).collect();
    multi("C03", "c03", seed, Cfg::default(), data, tps, &mut r)
}

// ---------------------------------------------------------------------------------------------
// C10: reset() restores the initial state after any history; clones are independent

pub fn valid_offset(r: &mut Rng) -> u64 {
    let chunk = match r.below(8) {
        0 => 1 + r.below(64),
        1 => 1u64 << r.below(20),
        2 => (1u64 << 32) - 1 + r.below(3),
        3 => (1u64 << (32 + r.below(22))) + r.below(4),
        4 => (1u64 << 54) - 1 - r.below(4),
        _ => 1 + r.below(100000),
    };
    chunk.min((1u64 << 54) - 1) * 1024
}

/// what one client does with a checked-out hasher; cancelled at an arbitrary point
fn client_ops(r: &mut Rng, h: usize, data: &mut Vec<DataSpec>, slot: &mut usize, mixa: &AdapterMix, traits: bool, max: usize) -> Vec<Op> {
    let mut ops = Vec::new();
    let use_offset = r.chance(1, 4);
    let mut budget = usize::MAX;
    if !use_offset && r.chance(1, 10) {
        // positioned, then moved back to the start before any input
        ops.push(Op::SetOffset { h, off: valid_offset(r) });
        ops.push(Op::SetOffset { h, off: 0 });
    }
    if use_offset {
        let off = valid_offset(r);
        if r.chance(1, 4) {
            ops.push(Op::SetOffset { h, off: valid_offset(r) });
        }
        ops.push(Op::SetOffset { h, off });
        let tz = (off / 1024).trailing_zeros().min(12);
        budget = 1024usize << tz;
    }
    let total = size(r, max).min(budget);
    data.push(data_spec(r, total));
    let di = data.len() - 1;
    let mut off = 0;
    for f in fragments(r, total) {
        let via = adapter(r, f, mixa);
        ops.push(Op::Absorb { h, data: di, off, len: f, via });
        off += f;
        let x = r.below(12);
        if x < 3 {
            if use_offset {
                let cv = *slot;
                *slot += 1;
                ops.push(Op::FinalizeNonRoot { h, cv });
            } else {
                ops.push(query_op(r, h, traits));
            }
        } else if x == 3 {
            let c = *slot;
            *slot += 1;
            ops.push(Op::CloneH { h, new: c });
            // clone and original diverge
            let extra = 1 + r.usize_below(3000);
            data.push(DataSpec::Random { seed: r.next(), len: extra });
            if !use_offset {
                ops.push(Op::Absorb { h: c, data: data.len() - 1, off: 0, len: extra, via: AbsorbVia::Update });
                ops.push(Op::Finalize { h: c, via: FinVia::Inherent });
            } else {
                ops.push(Op::Count { h: c });
            }
        }
    }
    // cancellation: the client is cut off at an arbitrary operation
    let keep = r.usize_below(ops.len() + 1);
    ops.truncate(keep);
    ops.push(Op::Cancel);
    ops
}

pub fn c10(base_seed: u64, i: u64, g: &GenCtx) -> Plan {
    let seed = mix(base_seed ^ 0xC10, i);
    let mut r = Rng::new(seed);
    let ntasks = if r.chance(3, 4) { 1 } else { 2 };
    let mut data = Vec::new();
    let mut tasks: Vec<Vec<Op>> = vec![Vec::new(); ntasks];
    let npool = 1 + r.usize_below(2);
    let mut slot = npool;
    let mixa = AdapterMix { io: r.chance(1, 2), rayon: r.chance(1, 6), simjoin: r.chance(1, 4), mmap: false, traits: false, faulty: true };
    let max = if g.tier_thorough { 200 * KIB } else { 40 * KIB };
    for h in 0..npool {
        let m = mode(&mut r, &mut data);
        let mut t = r.usize_below(ntasks);
        tasks[t].push(Op::NewHasher { slot: h, mode: m, via: NewVia::Inherent });
        let clients = 2 + r.usize_below(3);
        for c in 0..clients {
            let ops = client_ops(&mut r, h, &mut data, &mut slot, &mixa, false, max);
            tasks[t].extend(ops);
            if h > 0 && r.chance(1, 6) {
                // a scratch hasher re-seeded from another pool member, then both go on independently
                tasks[t].push(Op::CloneFromH { src: h, dst: h - 1 });
                tasks[t].push(Op::Count { h: h - 1 });
                tasks[t].push(Op::Finalize { h: h - 1, via: FinVia::Inherent });
                tasks[t].push(Op::FinalizeXof { h: h - 1, r: None, n: 70, via: FinVia::Inherent });
            }
            if c + 1 < clients {
                // reset() itself, or one of the trait methods that delegate to it
                match r.below(7) {
                    6 => tasks[t].push(Op::FinalizeXof { h, r: None, n: xof_len(&mut r), via: FinVia::TraitResetInto }),
                    0 => tasks[t].push(Op::Reset { h, via: ResetVia::DigestReset }),
                    1 => tasks[t].push(Op::Finalize { h, via: FinVia::TraitReset }),
                    2 => tasks[t].push(Op::FinalizeXof { h, r: None, n: xof_len(&mut r), via: FinVia::TraitReset }),
                    _ => tasks[t].push(Op::Reset { h, via: ResetVia::Inherent }),
                }
                if ntasks > 1 && r.chance(1, 3) {
                    let o = (t + 1) % ntasks;
                    tasks[t].push(Op::Send { slot: h, to: o });
                    tasks[o].push(Op::Recv { slot: h });
                    t = o;
                }
            }
        }
        // the last client is not cancelled before it observed something
        let total = size(&mut r, max);
        data.push(data_spec(&mut r, total));
        tasks[t].push(Op::Reset { h, via: ResetVia::Inherent });
        tasks[t].push(Op::Count { h });
        if r.chance(1, 3) {
            let off = valid_offset(&mut r);
            let tz = (off / 1024).trailing_zeros().min(12);
            let len = total.min(1024usize << tz).max(1);
            data.push(data_spec(&mut r, len));
            tasks[t].push(Op::SetOffset { h, off });
            tasks[t].push(Op::Absorb { h, data: data.len() - 1, off: 0, len, via: AbsorbVia::Update });
            let cv = slot;
            slot += 1;
            tasks[t].push(Op::FinalizeNonRoot { h, cv });
        } else {
            tasks[t].push(Op::Absorb { h, data: data.len() - 1, off: 0, len: total, via: AbsorbVia::Update });
            tasks[t].push(Op::Finalize { h, via: FinVia::Inherent });
            tasks[t].push(Op::FinalizeXof { h, r: None, n: xof_len(&mut r), via: FinVia::Inherent });
        }
    }
    let cfg = Cfg { pool_width: if mixa.simjoin { 2 + r.below(4) as u8 } else { 1 }, ..Cfg::default() };
    let tps = tasks.into_iter().map(|ops| TaskPlan { level: level(&mut r, g.avail), ops }).collect();
    multi("C10", "c10", seed, cfg, data, tps, &mut r)
}

// ---------------------------------------------------------------------------------------------
// C08: multithreaded hashing is deterministic under every schedule (scripted Join + real rayon)

fn degree_of(l: Level, avail: &[Level]) -> usize {
    match l {
        Level::Portable => 1,
        Level::SSE2 | Level::SSE41 => 4,
        Level::AVX2 => 8,
        Level::AVX512 => 16,
        Level::Detect => avail.iter().map(|x| degree_of(*x, &[])).max().unwrap_or(1),
    }
}

fn split_len(r: &mut Rng, d: usize, max_chunks: usize) -> usize {
    let chunks = match r.below(10) {
        0 => d + 1,
        1 => 2 * d,
        2 => 2 * d + 1,
        3 => 3 * d,
        4 => 4 * d + r.usize_below(3),
        5 => 1usize << r.below(10),
        6 => (1usize << r.below(9)) + 1,
        7 => 2 + r.usize_below(12),
        _ => 2 + r.usize_below(max_chunks),
    }
    .clamp(2, max_chunks);
    let tail = match r.below(4) {
        0 => 0,
        1 => 1,
        2 => 1023,
        _ => r.usize_below(1024),
    };
    (chunks - 1) * KIB + if tail == 0 { KIB } else { tail }
}

pub fn c08(base_seed: u64, i: u64, g: &GenCtx) -> Plan {
    let seed = mix(base_seed ^ 0xC08, i);
    let mut r = Rng::new(seed);
    let ntasks = if r.chance(5, 6) { 1 } else { 2 };
    let mut data = Vec::new();
    let mut tasks = Vec::new();
    let mut slot = 0;
    let max_chunks = if g.tier_thorough { 1024 } else { 300 };
    let real_rayon = r.chance(1, 6);
    for _ in 0..ntasks {
        let lvl = if r.chance(2, 5) { Level::Portable } else { level(&mut r, g.avail) };
        let d = degree_of(lvl, g.avail);
        let mut ops = Vec::new();
        let nh = 1 + r.usize_below(2);
        for _ in 0..nh {
            let m = mode(&mut r, &mut data);
            let h = slot;
            slot += 1;
            ops.push(Op::NewHasher { slot: h, mode: m, via: NewVia::Inherent });
            let prefix = match r.below(4) {
                0 => 0,
                1 => 1 + r.usize_below(1023),
                2 => KIB * (1 + r.usize_below(9)),
                _ => size(&mut r, 20 * KIB),
            };
            let n_upd = 1 + r.usize_below(3);
            let mut lens = vec![];
            for _ in 0..n_upd {
                let mc = if r.chance(1, 8) { max_chunks } else { max_chunks.min(8 * d + 40) };
                lens.push(split_len(&mut r, d, mc));
            }
            let total: usize = prefix + lens.iter().sum::<usize>() + 3 * 2600;
            data.push(data_spec(&mut r, total));
            let di = data.len() - 1;
            let mut off = 0;
            if prefix > 0 {
                ops.push(Op::Absorb { h, data: di, off, len: prefix, via: AbsorbVia::Update });
                off += prefix;
            }
            for len in lens {
                let via = if real_rayon {
                    if r.chance(1, 3) { AbsorbVia::MmapRayon } else { AbsorbVia::Rayon { width: *r.pick(&[0u8, 1, 2, 4, 16]) } }
                } else {
                    AbsorbVia::SimJoin(join_policy(&mut r))
                };
                ops.push(Op::Absorb { h, data: di, off, len, via });
                off += len;
                // same state as a serial update: count (inside Absorb), outputs, and the continuation
                ops.push(Op::Finalize { h, via: FinVia::Inherent });
                if r.chance(1, 2) {
                    ops.push(Op::FinalizeXof { h, r: None, n: 131, via: FinVia::Inherent });
                }
                if r.chance(1, 2) {
                    let more = 1 + r.usize_below(2500);
                    // the continuation may itself go through the multithreaded entry point, however short it is
                    let cvia = if r.chance(1, 3) { AbsorbVia::Rayon { width: *r.pick(&[1u8, 2, 4]) } } else if r.chance(1, 4) { AbsorbVia::SimJoin(join_policy(&mut r)) } else { AbsorbVia::Update };
                    ops.push(Op::Absorb { h, data: di, off, len: more.min(total - off), via: cvia });
                    off += more.min(total - off);
                    ops.push(Op::Finalize { h, via: FinVia::Inherent });
                }
            }
        }
        if real_rayon && slot >= 1 {
            // several hashers fed at once inside one pool
            let n = 2 + r.usize_below(4);
            let mut items = Vec::new();
            for k in 0..n {
                let h = slot;
                slot += 1;
                ops.push(Op::NewHasher { slot: h, mode: mode(&mut r, &mut data), via: NewVia::Inherent });
                let len = split_len(&mut r, 16, 200) + k;
                data.push(DataSpec::Random { seed: r.next(), len });
                items.push((h, data.len() - 1, 0, len));
            }
            ops.push(Op::ParallelRayon { items: items.clone(), width: *r.pick(&[2u8, 3, 4, 8]) });
            for (h, _, _, _) in items {
                ops.push(Op::FinalizeXof { h, r: None, n: 70, via: FinVia::Inherent });
            }
        }
        tasks.push(TaskPlan { level: lvl, ops });
    }
    let cfg = Cfg { pool_width: 1 + r.below(8) as u8, ..Cfg::default() };
    let mut p = multi("C08", "c08", seed, cfg, data, tasks, &mut r);
    if matches!(p.schedule, Schedule::Explicit { .. }) {
        p.schedule = schedule(&mut r);
    }
    p
}

// ---------------------------------------------------------------------------------------------
// C18: independent hashers are isolated across threads (judge: Solo)

/// a self-contained program over its own instances
fn solo_program(r: &mut Rng, data: &mut Vec<DataSpec>, slot: &mut usize, g: &GenCtx) -> Vec<Op> {
    let mut ops = Vec::new();
    let n = 1 + r.usize_below(3);
    for _ in 0..n {
        match r.below(5) {
            0 => {
                // one-shot calls
                let len = size(r, 20 * KIB);
                data.push(data_spec(r, len));
                let di = data.len() - 1;
                let m = mode(r, data);
                ops.push(Op::OneShot { mode: m, data: di, off: 0, len });
            }
            1 => {
                // XOF reader history
                let len = r.usize_below(3 * KIB);
                data.push(data_spec(r, len));
                let di = data.len() - 1;
                let m = mode(r, data);
                let h = *slot;
                let rs = *slot + 1;
                *slot += 2;
                ops.push(Op::NewHasher { slot: h, mode: m, via: NewVia::Inherent });
                ops.push(Op::Absorb { h, data: di, off: 0, len, via: AbsorbVia::Update });
                ops.push(Op::FinalizeXof { h, r: Some(rs), n: 64, via: FinVia::Inherent });
                let k = 2 + r.usize_below(8);
                ops.extend(reader_ops(r, rs, k, false, false));
            }
            _ => {
                // hasher history
                let total = size(r, if g.tier_thorough { 128 * KIB } else { 40 * KIB });
                data.push(data_spec(r, total));
                let di = data.len() - 1;
                let m = mode(r, data);
                let h = *slot;
                *slot += 1;
                ops.push(Op::NewHasher { slot: h, mode: m, via: NewVia::Inherent });
                let mixa = AdapterMix { io: true, rayon: false, simjoin: false, mmap: false, traits: false, faulty: true };
                let mut off = 0;
                for f in fragments(r, total) {
                    let mut via = adapter(r, f, &mixa);
                    if matches!(via, AbsorbVia::Reader(_) | AbsorbVia::ReaderDyn(_) | AbsorbVia::IoCopy(_)) && r.chance(1, 2) {
                        // the reader of this caller is hit by signals or fails: nobody else's business
                        let sc = if r.chance(1, 4) { faulty_script(r) } else { stormy_script(r) };
                        via = reader_via(r, sc);
                    }
                    ops.push(Op::Absorb { h, data: di, off, len: f, via });
                    off += f;
                    if r.chance(1, 3) {
                        ops.push(query_op(r, h, false));
                    }
                }
                ops.push(Op::Finalize { h, via: FinVia::Inherent });
                ops.push(Op::FinalizeXof { h, r: None, n: xof_len(r), via: FinVia::Inherent });
            }
        }
    }
    ops
}

pub fn c18(base_seed: u64, i: u64, g: &GenCtx) -> Plan {
    let seed = mix(base_seed ^ 0xC18, i);
    let mut r = Rng::new(seed);
    let ntasks = 2 + r.usize_below(5);
    let mut data = Vec::new();
    let mut slot = 0;
    let mut tasks = Vec::new();
    for _ in 0..ntasks {
        let ops = solo_program(&mut r, &mut data, &mut slot, g);
        tasks.push(TaskPlan { level: level(&mut r, g.avail), ops });
    }
    let fresh = r.chance(1, 2);
    let mut p = multi("C18", "c18", seed, Cfg { pool_width: 1, fresh_threads: fresh, ..Cfg::default() }, data, tasks, &mut r);
    p.schedule = schedule(&mut r);
    p
}

// ---------------------------------------------------------------------------------------------
// C04: the same plans, re-executed under every level (judge: CompareLevels)

fn as_c04(mut p: Plan, fam: &str) -> Plan {
    p.prop = "C04".into();
    p.family = fam.into();
    p
}

pub fn c04_hist(base_seed: u64, i: u64, g: &GenCtx) -> Plan {
    as_c04(c02(base_seed ^ 0x4004, i, g), "c04-c02")
}
pub fn c04_xof(base_seed: u64, i: u64, g: &GenCtx) -> Plan {
    as_c04(c03(base_seed ^ 0x4004, i, g), "c04-c03")
}
pub fn c04_join(base_seed: u64, i: u64, g: &GenCtx) -> Plan {
    as_c04(c08(base_seed ^ 0x4004, i, g), "c04-c08")
}
pub fn c04_reader(base_seed: u64, i: u64, g: &GenCtx) -> Plan {
    // fault-free and faulty reader scripts alike: the adapter path must not depend on the level
    as_c04(c11_reader(base_seed ^ 0x4004, i * 7 + (i % 2), g), "c04-c11")
}

// ---------------------------------------------------------------------------------------------
// C09: subtree hashing composes for every valid decomposition (simulated cluster)

fn model_left_len(len: u64) -> u64 {
    crate::model::largest_pow2_below(len)
}

struct Shard {
    off: usize,
    len: usize,
    cv: usize,
}

/// returns the cv slot of node (off,len); appends shards and merge ops (post-order)
fn decompose(r: &mut Rng, off: usize, len: usize, stop_p: u64, group: usize, next_cv: &mut usize, shards: &mut Vec<Shard>, merges: &mut Vec<(usize, usize, usize)>, top: bool) -> usize {
    let stop = !top && (len <= KIB || len <= group || r.below(100) < stop_p);
    if stop || len <= KIB {
        let cv = *next_cv;
        *next_cv += 1;
        shards.push(Shard { off, len, cv });
        return cv;
    }
    let l = model_left_len(len as u64) as usize;
    let a = decompose(r, off, l, stop_p, group, next_cv, shards, merges, false);
    let b = decompose(r, off + l, len - l, stop_p, group, next_cv, shards, merges, false);
    let cv = *next_cv;
    *next_cv += 1;
    merges.push((a, b, cv));
    cv
}

fn hazmat_capable_mode(r: &mut Rng, data: &mut Vec<DataSpec>) -> Mode {
    mode(r, data)
}

pub fn c09(base_seed: u64, i: u64, g: &GenCtx) -> Plan {
    let seed = mix(base_seed ^ 0xC09, i);
    let mut r = Rng::new(seed);
    let max = if g.tier_thorough { 1 << 20 } else { 200 * KIB };
    let len = (1025 + size(&mut r, max - 1025)).min(max);
    let mut data = vec![data_spec(&mut r, len)];
    let m = hazmat_capable_mode(&mut r, &mut data);
    let nworkers = 1 + r.usize_below(6);
    let mut tasks: Vec<Vec<Op>> = vec![Vec::new(); nworkers + 1];
    let stop_p = *r.pick(&[0u64, 10, 30, 60, 90]);
    let group = *r.pick(&[0usize, KIB, 2 * KIB, 4 * KIB, 16 * KIB, 64 * KIB]);
    let mut next_cv = 1000usize;
    let mut shards = Vec::new();
    let mut merges = Vec::new();
    let top = decompose(&mut r, 0, len, stop_p, group, &mut next_cv, &mut shards, &mut merges, true);
    let _ = top;
    let mixa = AdapterMix { io: r.chance(1, 2), rayon: r.chance(1, 8), simjoin: r.chance(1, 4), mmap: false, traits: false, faulty: false };
    let mut hslot = 0usize;
    // workers process shards in a shuffled order
    let mut order: Vec<usize> = (0..shards.len()).collect();
    for k in (1..order.len()).rev() {
        order.swap(k, r.usize_below(k + 1));
    }
    let crash_p = *r.pick(&[0u64, 0, 5, 20]);
    let dup_p = *r.pick(&[0u64, 0, 5, 15]);
    let mut dup_slot = 5000usize;
    let mut coord_recv: Vec<usize> = Vec::new();
    for &si in &order {
        let sh = &shards[si];
        let mut w = 1 + r.usize_below(nworkers);
        // fault: the worker crashes mid-shard; the shard is recomputed on a fresh hasher (maybe elsewhere)
        if r.below(100) < crash_p {
            let h = hslot;
            hslot += 1;
            tasks[w].push(Op::NewHasher { slot: h, mode: m.clone(), via: NewVia::Inherent });
            tasks[w].push(Op::SetOffset { h, off: sh.off as u64 });
            let part = r.usize_below(sh.len + 1);
            tasks[w].push(Op::Absorb { h, data: 0, off: sh.off, len: part, via: AbsorbVia::Update });
            tasks[w].push(Op::Cancel);
            tasks[w].push(Op::DropSlot { slot: h });
            if r.chance(1, 2) {
                w = 1 + r.usize_below(nworkers);
            }
        }
        let copies = if r.below(100) < dup_p { 2 } else { 1 };
        for c in 0..copies {
            let w2 = if c == 0 { w } else { 1 + r.usize_below(nworkers) };
            let h = hslot;
            hslot += 1;
            tasks[w2].push(Op::NewHasher { slot: h, mode: m.clone(), via: NewVia::Inherent });
            if r.chance(1, 8) {
                tasks[w2].push(Op::SetOffset { h, off: valid_offset(&mut r) });
                tasks[w2].push(Op::SetOffset { h, off: sh.off as u64 });
            } else if sh.off > 0 || r.chance(1, 3) {
                tasks[w2].push(Op::SetOffset { h, off: sh.off as u64 });
            }
            let mut o = sh.off;
            let mut h = h;
            for f in fragments(&mut r, sh.len) {
                tasks[w2].push(Op::Absorb { h, data: 0, off: o, len: f, via: adapter(&mut r, f, &mixa) });
                o += f;
                if r.chance(1, 6) {
                    tasks[w2].push(Op::Count { h });
                }
                if r.chance(1, 10) {
                    // checkpoint / hand-over inside a shard: the work continues on a clone of the subtree hasher
                    let h2 = hslot;
                    hslot += 1;
                    if r.chance(1, 2) {
                        tasks[w2].push(Op::CloneH { h, new: h2 });
                    } else {
                        tasks[w2].push(Op::NewHasher { slot: h2, mode: m.clone(), via: NewVia::Inherent });
                        tasks[w2].push(Op::CloneFromH { src: h, dst: h2 });
                    }
                    tasks[w2].push(Op::DropSlot { slot: h });
                    h = h2;
                }
            }
            let cv = if c == 0 { sh.cv } else { dup_slot += 1; dup_slot };
            tasks[w2].push(Op::FinalizeNonRoot { h, cv });
            tasks[w2].push(Op::Send { slot: cv, to: 0 });
            coord_recv.push(cv);
            if c == 1 {
                // a duplicate delivery: the coordinator receives it too and may use either copy
            }
        }
    }
    // coordinator: receive in tree order (messages arrive in any order), merge bottom-up
    coord_recv.sort_unstable();
    let mut dups: Vec<usize> = coord_recv.iter().copied().filter(|c| *c >= 5000).collect();
    for cv in coord_recv.iter().filter(|c| **c < 5000) {
        tasks[0].push(Op::Recv { slot: *cv });
    }
    for cv in dups.drain(..) {
        tasks[0].push(Op::Recv { slot: cv });
    }
    let n_merges = merges.len();
    for (k, (a, b, out)) in merges.iter().enumerate() {
        if k + 1 == n_merges {
            tasks[0].push(Op::Merge { l: *a, r: *b, mode: m.clone(), kind: MergeKind::Root, out: *out, n: 0 });
            let rs = 9000;
            tasks[0].push(Op::Merge { l: *a, r: *b, mode: m.clone(), kind: MergeKind::RootXof, out: rs, n: xof_len(&mut r) });
            let k2 = r.usize_below(6);
            let e = reader_ops(&mut r, rs, k2, false, false);
            tasks[0].extend(e);
            if r.chance(1, 3) {
                tasks[0].push(Op::Merge { l: *a, r: *b, mode: m.clone(), kind: MergeKind::NonRoot, out: *out, n: 0 });
            }
        } else {
            tasks[0].push(Op::Merge { l: *a, r: *b, mode: m.clone(), kind: MergeKind::NonRoot, out: *out, n: 0 });
        }
    }
    // helper functions at the shard boundaries
    for sh in shards.iter().take(6) {
        if sh.off > 0 {
            tasks[0].push(Op::HelperMaxLen { off: sh.off as u64 });
        }
    }
    tasks[0].push(Op::HelperLeftLen { n: len as u64 });
    let cfg = Cfg { pool_width: if mixa.simjoin { 2 + r.below(4) as u8 } else { 1 }, ..Cfg::default() };
    let tps = tasks.into_iter().map(|ops| TaskPlan { level: level(&mut r, g.avail), ops }).collect();
    let mut p = multi("C09", "c09-cluster", seed, cfg, data, tps, &mut r);
    p.schedule = schedule(&mut r);
    p
}

/// giant virtual inputs: only a window is hashed with real bytes
pub fn c09_giant(base_seed: u64, i: u64, g: &GenCtx) -> Plan {
    let seed = mix(base_seed ^ 0x91A7, i);
    let mut r = Rng::new(seed);
    let total: u64 = match r.below(6) {
        0 => u64::MAX,
        1 => u64::MAX - r.below(5000),
        2 => (1u64 << (11 + r.below(53))) + r.below(3) - 1,
        3 => (1u64 << 63) + r.below(1 << 20),
        _ => {
            let bits = 12 + r.below(52);
            (r.next() >> (63 - bits)).max(70_000)
        }
    };
    let mut data = Vec::new();
    let m = mode(&mut r, &mut data);
    let mut ops = Vec::new();
    let (mut off, mut len) = (0u64, total);
    let window = 64 * KIB as u64;
    let mut steps = 0;
    while len > window && steps < 80 {
        steps += 1;
        ops.push(Op::HelperLeftLen { n: len });
        let l = model_left_len(len);
        // bias to the right edge sometimes, to the left otherwise, so offsets of every magnitude occur
        if r.chance(2, 5) {
            off += l;
            len -= l;
        } else {
            len = l;
        }
    }
    let len = len.min(window) as usize;
    if off > 0 {
        ops.push(Op::HelperMaxLen { off });
    }
    // the window must itself respect max_subtree_len(off): trim to it
    let maxlen = if off == 0 { len } else { ((1024u128 << (off / 1024).trailing_zeros().min(40)) as usize).min(len) };
    let len = maxlen.max(1);
    data.push(data_spec(&mut r, len));
    let di = data.len() - 1;
    let mixa = AdapterMix { io: true, rayon: false, simjoin: r.chance(1, 3), mmap: false, traits: false, faulty: false };
    // whole window as one subtree
    ops.push(Op::NewHasher { slot: 0, mode: m.clone(), via: NewVia::Inherent });
    if r.chance(1, 3) {
        // the offset may be set several times before the first byte: the last call wins
        ops.push(Op::SetOffset { h: 0, off: valid_offset(&mut r) });
        if r.chance(1, 3) {
            ops.push(Op::SetOffset { h: 0, off: 0 });
        }
    }
    ops.push(Op::SetOffset { h: 0, off });
    let mut o = 0;
    for f in fragments(&mut r, len) {
        ops.push(Op::Absorb { h: 0, data: di, off: o, len: f, via: adapter(&mut r, f, &mixa) });
        o += f;
    }
    ops.push(Op::FinalizeNonRoot { h: 0, cv: 100 });
    // and as two halves merged (when it splits)
    if len > KIB {
        let l = model_left_len(len as u64) as usize;
        for (k, (o2, l2)) in [(0usize, l), (l, len - l)].into_iter().enumerate() {
            let h = 1 + k;
            ops.push(Op::NewHasher { slot: h, mode: m.clone(), via: NewVia::Inherent });
            ops.push(Op::SetOffset { h, off: off + o2 as u64 });
            ops.push(Op::Absorb { h, data: di, off: o2, len: l2, via: AbsorbVia::Update });
            ops.push(Op::FinalizeNonRoot { h, cv: 101 + k });
            ops.push(Op::HelperMaxLen { off: off + o2 as u64 });
        }
        ops.push(Op::Merge { l: 101, r: 102, mode: m.clone(), kind: MergeKind::NonRoot, out: 103, n: 0 });
    }
    let lvl = level(&mut r, g.avail);
    single("C09", "c09-giant", seed, Cfg { pool_width: 3, ..Cfg::default() }, data, lvl, ops)
}

// ---------------------------------------------------------------------------------------------
// C16: RustCrypto traits and the guts API agree with the inherent API

pub fn c16_traits(base_seed: u64, i: u64, g: &GenCtx) -> Plan {
    let seed = mix(base_seed ^ 0xC16, i);
    let mut r = Rng::new(seed);
    let mut data = Vec::new();
    let mut ops = Vec::new();
    let max = if g.tier_thorough { 200 * KIB } else { 40 * KIB };
    let nh = 1 + r.usize_below(2);
    let mut slot = 0usize;
    if r.chance(1, 3) {
        // one-shot entry points of the traits (now and then over an input well beyond 128 KiB)
        let len = if r.chance(1, 6) { 128 * KIB + r.usize_below(200 * KIB) } else { size(&mut r, max) };
        data.push(data_spec(&mut r, len));
        ops.push(Op::TraitOneShot { data: data.len() - 1, off: 0, len, which: r.below(4) as u8, n: xof_len(&mut r) });
    }
    for _ in 0..nh {
        // KeyInit only builds keyed hashers, Digest::new only plain ones
        let m = match r.below(4) {
            0 | 1 => {
                data.push(DataSpec::Random { seed: r.next(), len: 32 });
                Mode::Keyed { key: data.len() - 1 }
            }
            2 => Mode::Hash,
            _ => mode(&mut r, &mut data),
        };
        let h = slot;
        slot += 1;
        let via = if matches!(m, Mode::Hash | Mode::Keyed { .. }) && r.chance(2, 3) { NewVia::Trait } else { NewVia::Inherent };
        ops.push(Op::NewHasher { slot: h, mode: m, via });
        let rounds = 1 + r.usize_below(3);
        for _ in 0..rounds {
            let total = size(&mut r, max);
            data.push(data_spec(&mut r, total));
            let di = data.len() - 1;
            let mixa = AdapterMix { io: r.chance(1, 3), rayon: false, simjoin: false, mmap: false, traits: true, faulty: true };
            let mut off = 0;
            for f in fragments(&mut r, total) {
                let via = match r.below(4) {
                    0 => AbsorbVia::TraitUpdate,
                    1 => AbsorbVia::DigestUpdate,
                    2 => AbsorbVia::MacUpdate,
                    _ => adapter(&mut r, f, &mixa),
                };
                ops.push(Op::Absorb { h, data: di, off, len: f, via });
                off += f;
                if r.chance(1, 3) {
                    ops.push(query_op(&mut r, h, true));
                }
            }
            // a resetting variant, then the same hasher continues: the state left behind matters
            match r.below(7) {
                5 => ops.push(Op::FinalizeXof { h, r: None, n: *r.pick(&[0usize, 1, 16, 31, 32, 33, 64, 100]), via: FinVia::TraitResetInto }),
                6 => {
                    // a hazmat offset, then a reset through the trait: the next round must start from scratch
                    ops.push(Op::Reset { h, via: ResetVia::DigestReset });
                    ops.push(Op::SetOffset { h, off: valid_offset(&mut r) });
                    data.push(DataSpec::Random { seed: r.next(), len: 1 + r.usize_below(1024) });
                    ops.push(Op::Absorb { h, data: data.len() - 1, off: 0, len: data[data.len() - 1].len(), via: AbsorbVia::TraitUpdate });
                    let cv = slot;
                    slot += 1;
                    ops.push(Op::FinalizeNonRoot { h, cv });
                    ops.push(Op::Reset { h, via: ResetVia::DigestReset });
                }
                0 => ops.push(Op::Finalize { h, via: FinVia::TraitReset }),
                1 => {
                    let rs = slot;
                    slot += 1;
                    ops.push(Op::FinalizeXof { h, r: Some(rs), n: xof_len(&mut r), via: FinVia::TraitReset });
                    let k = 1 + r.usize_below(6);
                    ops.extend(reader_ops(&mut r, rs, k, false, true));
                }
                2 => ops.push(Op::Reset { h, via: ResetVia::DigestReset }),
                3 => {
                    let rs = slot;
                    slot += 1;
                    ops.push(Op::FinalizeXof { h, r: Some(rs), n: xof_len(&mut r), via: FinVia::TraitClone });
                    let k = 1 + r.usize_below(6);
                    ops.extend(reader_ops(&mut r, rs, k, false, true));
                }
                _ => ops.push(Op::Finalize { h, via: FinVia::MacOrDigest }),
            }
        }
        ops.push(Op::Count { h });
        ops.push(Op::Finalize { h, via: FinVia::Inherent });
    }
    let lvl = level(&mut r, g.avail);
    single("C16", "c16-traits", seed, Cfg::default(), data, lvl, ops)
}

pub fn c16_guts(base_seed: u64, i: u64, g: &GenCtx) -> Plan {
    let seed = mix(base_seed ^ 0x6075, i);
    let mut r = Rng::new(seed);
    let mut data = Vec::new();
    let mut ops = Vec::new();
    if r.chance(1, 3) {
        // isolated chunks at arbitrary counters (non-root)
        let n = 1 + r.usize_below(4);
        for k in 0..n {
            let len = match r.below(5) {
                0 => *r.pick(&[0usize, 1, 63, 64, 65, 1023, 1024]),
                _ => r.usize_below(1025),
            };
            data.push(data_spec(&mut r, len));
            let counter = match r.below(5) {
                0 => r.below(10),
                1 => (1u64 << 32) - 2 + r.below(4),
                2 => u64::MAX - r.below(3),
                3 => (1u64 << 54) - 1,
                _ => r.next() >> r.below(64),
            };
            let cuts: Vec<u16> = (0..r.usize_below(5)).map(|_| r.below(400) as u16).collect();
            ops.push(Op::GutsChunk { data: data.len() - 1, off: 0, len, counter, cuts, is_root: false, out: 100 + k });
        }
        if n >= 2 {
            ops.push(Op::GutsParent { l: 100, r: 101, is_root: false, out: 200 });
        }
    } else {
        // a whole input hashed the legacy way: chunk CVs + parent_cv up the tree
        let max_chunks = if g.tier_thorough { 64 } else { 20 };
        let len = match r.below(4) {
            0 => r.usize_below(1025),
            _ => 1 + r.usize_below(max_chunks * KIB),
        };
        data.push(data_spec(&mut r, len));
        fn build(r: &mut Rng, ops: &mut Vec<Op>, off: usize, len: usize, next: &mut usize, top: bool) -> usize {
            if len <= KIB {
                let out = *next;
                *next += 1;
                let cuts: Vec<u16> = (0..r.usize_below(4)).map(|_| r.below(500) as u16).collect();
                ops.push(Op::GutsChunk { data: 0, off, len, counter: (off / KIB) as u64, cuts, is_root: top, out });
                return out;
            }
            let l = crate::model::largest_pow2_below(len as u64) as usize;
            let a = build(r, ops, off, l, next, false);
            let b = build(r, ops, off + l, len - l, next, false);
            let out = *next;
            *next += 1;
            ops.push(Op::GutsParent { l: a, r: b, is_root: top, out });
            out
        }
        let mut next = 100;
        build(&mut r, &mut ops, 0, len, &mut next, true);
        // the same through hazmat for cross-checking one representative subtree
        ops.push(Op::OneShot { mode: Mode::Hash, data: 0, off: 0, len });
    }
    let lvl = level(&mut r, g.avail);
    single("C16", "c16-guts", seed, Cfg { model_oracle: true, ..Cfg::default() }, data, lvl, ops)
}

// ---------------------------------------------------------------------------------------------
// C17: secret state neither printed by Debug nor left behind by zeroize (judge: SelfCompose)

pub fn c17(base_seed: u64, i: u64, g: &GenCtx) -> Plan {
    let seed = mix(base_seed ^ 0xC17, i);
    let mut r = Rng::new(seed);
    let mut data = Vec::new();
    let mut ops = Vec::new();
    let max = if g.tier_thorough { 300 * KIB } else { 64 * KIB };
    let nh = 1 + r.usize_below(2);
    let mut slot = 0usize;
    for _ in 0..nh {
        // keyed and derive modes emphasised
        let m = match r.below(5) {
            0 => Mode::Hash,
            1 | 2 => {
                data.push(DataSpec::Random { seed: r.next(), len: 32 });
                Mode::Keyed { key: data.len() - 1 }
            }
            _ => mode(&mut r, &mut data),
        };
        let h = slot;
        slot += 1;
        ops.push(Op::NewHasher { slot: h, mode: m, via: NewVia::Inherent });
        let sub_off = if r.chance(1, 4) { valid_offset(&mut r) } else { 0 };
        if sub_off != 0 {
            // a subtree hasher (hazmat input offset): its Debug output and wiping are held to the same standard
            ops.push(Op::SetOffset { h, off: sub_off });
        }
        // partial block >= 8 bytes and stack depth >= 2 are the interesting states
        let total = match r.below(4) {
            0 => size(&mut r, max),
            1 => KIB * (3 + r.usize_below(40)) + 8 + r.usize_below(1000),
            2 => 8 + r.usize_below(56),
            _ => r.usize_below(8 * KIB),
        };
        data.push(data_spec(&mut r, total));
        let di = data.len() - 1;
        let mixa = AdapterMix { io: true, rayon: false, simjoin: false, mmap: false, traits: false, faulty: true };
        let mut off = 0;
        for f in fragments(&mut r, total) {
            ops.push(Op::Absorb { h, data: di, off, len: f, via: adapter(&mut r, f, &mixa) });
            off += f;
            if r.chance(1, 3) {
                ops.push(Op::DebugFmt { slot: h, pretty: r.chance(1, 2) });
            }
            if r.chance(1, 8) {
                // wipe a clone at this instant
                let c = slot;
                slot += 1;
                ops.push(Op::CloneH { h, new: c });
                ops.push(Op::Zeroize { slot: c });
            }
        }
        // an OutputReader mid-block
        let rs = slot;
        slot += 1;
        ops.push(Op::FinalizeXof { h, r: Some(rs), n: *r.pick(&[0usize, 7, 33, 64, 100, 200]), via: FinVia::Inherent });
        ops.push(Op::DebugFmt { slot: rs, pretty: r.chance(1, 2) });
        let k = r.usize_below(5);
        ops.extend(reader_ops(&mut r, rs, k, false, false));
        ops.push(Op::DebugFmt { slot: rs, pretty: false });
        if r.chance(2, 3) {
            ops.push(Op::Zeroize { slot: rs });
        }
        // a Hash value (chaining value of the state) wiped too
        if total > 0 && r.chance(1, 2) {
            let cv = slot;
            slot += 1;
            ops.push(Op::FinalizeNonRoot { h, cv });
            ops.push(Op::Zeroize { slot: cv });
        }
        ops.push(Op::DebugFmt { slot: h, pretty: r.chance(1, 2) });
        ops.push(Op::Zeroize { slot: h });
    }
    // the legacy guts::ChunkState's Debug output (compared across the secret swap)
    if r.chance(1, 3) {
        let len = 8 + r.usize_below(1017);
        data.push(DataSpec::Random { seed: r.next(), len });
        let cuts: Vec<u16> = (0..r.usize_below(3)).map(|_| r.below(500) as u16).collect();
        ops.push(Op::GutsChunk { data: data.len() - 1, off: 0, len, counter: r.below(1 << 20), cuts, is_root: false, out: 900 });
    }
    let lvl = level(&mut r, g.avail);
    single("C17", "c17", seed, Cfg::default(), data, lvl, ops)
}

// ---------------------------------------------------------------------------------------------
// C06: the C library computes the same function (driven through blake3_hasher_* only)

fn c_mode(r: &mut Rng, data: &mut Vec<DataSpec>) -> Mode {
    match r.below(5) {
        0 | 1 => Mode::Hash,
        2 => {
            data.push(DataSpec::Random { seed: r.next(), len: 32 });
            Mode::Keyed { key: data.len() - 1 }
        }
        _ => {
            let len = match r.below(6) {
                0 => 0,
                1 => 1 + r.usize_below(8),
                2 => 300 + r.usize_below(900),
                _ => 1 + r.usize_below(60),
            };
            data.push(DataSpec::Random { seed: r.next(), len });
            Mode::Derive { ctx: data.len() - 1 }
        }
    }
}

fn c_mask(r: &mut Rng) -> u32 {
    match r.below(6) {
        0 => 0x7f,
        1 => 0,
        2 => *r.pick(&[0x01u32, 0x03, 0x07, 0x0f, 0x1f, 0x3f, 0x5f]),
        // cold feature cache: the dispatcher detects the CPU during the first call of the history
        3 => u32::MAX,
        _ => r.below(128) as u32,
    }
}

fn c_out_len(r: &mut Rng) -> usize {
    match r.below(10) {
        0 => 0,
        1 => *r.pick(&[1usize, 31, 32, 33]),
        2 | 3 => *r.pick(&[63usize, 64, 65, 127, 128, 129]),
        4 => *r.pick(&[1023usize, 1024, 1025, 16 * 64, 16 * 64 + 1, 17 * 64 - 1]),
        5 => r.usize_below(8 * KIB),
        _ => r.usize_below(300),
    }
}

fn c_history(r: &mut Rng, data: &mut Vec<DataSpec>, slot: &mut usize, max: usize, tbb: bool) -> Vec<Op> {
    let mut ops = Vec::new();
    let m = c_mode(r, data);
    let c = *slot;
    *slot += 1;
    let flavour = r.below(2) as u8;
    ops.push(Op::CInit { slot: c, flavour, mode: m, raw: r.chance(1, 2) });
    let rounds = 1 + r.usize_below(2);
    for round in 0..rounds {
        let total = size(r, max);
        data.push(data_spec(r, total));
        let di = data.len() - 1;
        let mut off = 0;
        for f in fragments(r, total) {
            let t = if tbb && f > KIB && r.chance(2, 3) { Some(join_policy(r)) } else { None };
            ops.push(Op::CUpdate { c, data: di, off, len: f, tbb: t });
            off += f;
            let x = r.below(12);
            if x < 3 {
                ops.push(Op::CFinalize { c, seek: None, out_len: c_out_len(r) });
            } else if x < 6 {
                ops.push(Op::CFinalize { c, seek: Some(xof_pos(r)), out_len: c_out_len(r) });
            } else if x == 6 {
                let n = *slot;
                *slot += 1;
                ops.push(Op::CCopy { c, new: n });
                let extra = 1 + r.usize_below(3000);
                data.push(DataSpec::Random { seed: r.next(), len: extra });
                ops.push(Op::CUpdate { c: n, data: data.len() - 1, off: 0, len: extra, tbb: None });
                ops.push(Op::CFinalize { c: n, seek: None, out_len: 32 });
            }
        }
        ops.push(Op::CFinalize { c, seek: None, out_len: 32 });
        ops.push(Op::CFinalize { c, seek: Some(xof_pos(r)), out_len: c_out_len(r) });
        if round + 1 < rounds {
            ops.push(Op::CReset { c });
        }
    }
    ops
}

pub fn c06(base_seed: u64, i: u64, g: &GenCtx) -> Plan {
    let seed = mix(base_seed ^ 0xC06, i);
    let mut r = Rng::new(seed);
    let mut data = Vec::new();
    let mut slot = 0;
    let max = if g.tier_thorough { 300 * KIB } else { 48 * KIB };
    let mut ops = vec![Op::CSetMask { mask: c_mask(&mut r) }];
    let n = 1 + r.usize_below(2);
    for _ in 0..n {
        ops.extend(c_history(&mut r, &mut data, &mut slot, max, false));
    }
    single("C06", "c06", seed, Cfg::default(), data, Level::Detect, ops)
}

/// blake3_hasher_update_tbb with the harness as the TBB seam (serves C06 and C08)
pub fn c06_tbb(base_seed: u64, i: u64, g: &GenCtx) -> Plan {
    let seed = mix(base_seed ^ 0x7BB, i);
    let mut r = Rng::new(seed);
    let mut data = Vec::new();
    let mut slot = 0;
    let max = if g.tier_thorough { 600 * KIB } else { 100 * KIB };
    // small masks give degree 1/4 so that even short inputs split many times
    let mask = match r.below(4) {
        0 => 0,
        1 => 0x07,
        _ => c_mask(&mut r),
    };
    let mut ops = vec![Op::CSetMask { mask }];
    ops.extend(c_history(&mut r, &mut data, &mut slot, max, true));
    let cfg = Cfg { pool_width: 1 + r.below(8) as u8, ..Cfg::default() };
    let mut p = single("C06", "c06-tbb", seed, cfg, data, Level::Detect, ops);
    p.schedule = schedule(&mut r);
    p
}

pub fn c08_c(base_seed: u64, i: u64, g: &GenCtx) -> Plan {
    let mut p = c06_tbb(base_seed ^ 0x88, i, g);
    p.prop = "C08".into();
    p.family = "c08-c-tbb".into();
    p
}

/// C18, C side: Rust and C instances on several caller tasks; the C feature cache starts UNDEFINED
pub fn c18_mixed(base_seed: u64, i: u64, g: &GenCtx) -> Plan {
    let seed = mix(base_seed ^ 0x18C, i);
    let mut r = Rng::new(seed);
    let ntasks = 2 + r.usize_below(4);
    let mut data = Vec::new();
    let mut slot = 0;
    let mut tasks = Vec::new();
    let undefined_start = r.chance(2, 3);
    for t in 0..ntasks {
        let mut ops = Vec::new();
        if t == 0 {
            ops.push(Op::CSetMask { mask: if undefined_start { u32::MAX } else { 0x7f } });
        }
        if r.chance(2, 3) {
            ops.extend(c_history(&mut r, &mut data, &mut slot, 20 * KIB, false));
        } else {
            ops.extend(solo_program(&mut r, &mut data, &mut slot, g));
        }
        tasks.push(TaskPlan { level: level(&mut r, g.avail), ops });
    }
    let mut p = multi("C18", "c18-mixed-c", seed, Cfg { pool_width: 1, ..Cfg::default() }, data, tasks, &mut r);
    p.schedule = schedule(&mut r);
    p
}

// ---------------------------------------------------------------------------------------------
// C12 / C13: b3sum as a process in a sandbox directory

fn hexs(b: &[u8]) -> String {
    crate::model::hex(b)
}

const PLAIN_NAMES: &[&[u8]] = &[b"a", b"b", b"c.txt", b"data.bin", b"x y", b"Z"];
const NASTY_PARTS: &[&[u8]] = &[
    b"a", b"b", b"file", b" ", b"  ", b") = ", b"BLAKE3 (", b"\\", b"\n", b"\r", b"\\n", b"\xc3\xa9", b"\xe6\x97\xa5",
    b"\xf0\x9f\x98\x80", b"\xff", b"\xc3", b"\xef\xbf\xbd", b".", b"=", b"(", b")", b"'", b"\"", b"*", b"\t", b"0", b"f",
    // other Unicode white space (a trim that is more generous than CR/LF eats these)
    b"\xc2\xa0", b"\xe3\x80\x80", b"\xe2\x80\xa8", b"\x0b", b"\x0c",
];

pub fn nasty_path(r: &mut Rng) -> Vec<u8> {
    if r.chance(1, 12) {
        // "BLAKE3 (" is 8 bytes, a hash and its separator 64 + 2: a double space at byte 54..58 of the name sits where
        // the other line form would look for it
        let k = 54 + r.usize_below(5);
        let mut p: Vec<u8> = (0..k).map(|i| b"abcdefghij"[i % 10]).collect();
        p.extend_from_slice(b"  ");
        p.extend_from_slice(*r.pick(&[&b"x"[..], &b""[..], &b"tail  end"[..]]));
        return p;
    }
    loop {
        let n = 1 + r.usize_below(5);
        let mut p = Vec::new();
        for _ in 0..n {
            p.extend_from_slice(*r.pick(NASTY_PARTS));
        }
        if p.is_empty() || p[0] == b'-' || p == b"." || p == b".." || p.len() > 200 || p.starts_with(b"checkfile.") {
            continue;
        }
        return p;
    }
}

/// a long relative path (nested directories, up to ~3.9 KiB) made mostly of characters that need escaping: its
/// checkfile line is far longer than the path itself
pub fn deep_nasty_path(r: &mut Rng) -> Vec<u8> {
    let target = *r.pick(&[600usize, 2000, 2100, 2200, 3000, 3900]);
    let mut p: Vec<u8> = Vec::new();
    while p.len() < target {
        if !p.is_empty() {
            p.push(b'/');
        }
        let clen = (60 + r.usize_below(190)).min(target + 1 - p.len()).max(1);
        let fill: &[u8] = *r.pick(&[&b"\n"[..], &b"\\"[..], &b"\r\n"[..], &b"\n\\a"[..], &b"\\ "[..]]);
        // first byte of a component: never '.', '-' or '/'
        p.push(b'd');
        for k in 1..clen {
            p.push(fill[k % fill.len()]);
        }
    }
    p
}

fn file_len(r: &mut Rng) -> usize {
    match r.below(8) {
        0 => 0,
        1 => 16383 + r.usize_below(3),
        2 => 1 + r.usize_below(100),
        3 => 16384 + r.usize_below(70000),
        4 => *r.pick(&[1023usize, 1024, 1025, 65536]),
        _ => r.usize_below(5000),
    }
}

fn cli_seek(r: &mut Rng, len: u64) -> Option<u64> {
    if r.chance(2, 3) {
        return None;
    }
    let p = xof_pos(r);
    Some(p.min(u64::MAX - len))
}

pub fn c12_hash(base_seed: u64, i: u64, _g: &GenCtx) -> Plan {
    let seed = mix(base_seed ^ 0xC12, i);
    let mut r = Rng::new(seed);
    let mut data = Vec::new();
    let mut ops = Vec::new();
    let nfiles = 1 + r.usize_below(3);
    let mut paths: Vec<Vec<u8>> = Vec::new();
    for k in 0..nfiles {
        let p = if r.chance(1, 4) { nasty_path(&mut r) } else { PLAIN_NAMES[(k + r.usize_below(3)) % PLAIN_NAMES.len()].to_vec() };
        if paths.contains(&p) {
            continue;
        }
        let len = file_len(&mut r);
        data.push(data_spec(&mut r, len));
        ops.push(Op::CliFile { path_hex: hexs(&p), data: data.len() - 1 });
        paths.push(p);
    }
    let n_inv = 1 + r.usize_below(3);
    for _ in 0..n_inv {
        let mut f = CliFlags::default();
        match r.below(5) {
            0 => {
                let klen = match r.below(4) {
                    0 => r.usize_below(41),
                    _ => 32,
                };
                data.push(DataSpec::Random { seed: r.next(), len: klen });
                f.keyed = Some(data.len() - 1);
                if r.chance(1, 4) {
                    f.stdin_split = Some(1 + r.below(31) as u8);
                }
            }
            1 => {
                data.push(DataSpec::Random { seed: r.next(), len: r.usize_below(30) });
                f.derive = Some(data.len() - 1);
            }
            _ => {}
        }
        if r.chance(1, 2) {
            f.length = Some(*r.pick(&[0u64, 1, 31, 32, 33, 64, 65, 131, 1000, 10000]));
            if r.chance(1, 12) {
                // long outputs: many writes to stdout, buffer boundaries of the output path
                f.length = Some(match r.below(4) {
                    0 => 65536 + r.below(3) - 1,
                    1 => 8192 * (1 + r.below(40)) + r.below(3) - 1,
                    _ => 70_000 + r.below(950_000),
                });
            }
        }
        f.seek = cli_seek(&mut r, f.length.unwrap_or(32));
        f.no_mmap = r.chance(1, 3);
        if r.chance(1, 2) {
            f.num_threads = Some(*r.pick(&[1u8, 2, 16]));
        }
        let style = r.below(6);
        f.raw = style == 0;
        f.no_names = style == 1;
        f.tag = style == 2;
        // which inputs
        let mut ps: Vec<String> = Vec::new();
        let mut stdin = None;
        let k = if f.raw && r.chance(9, 10) { 1 } else { 1 + r.usize_below(paths.len().max(1)) };
        for _ in 0..k {
            match r.below(10) {
                0 => {
                    // an input that cannot be opened; sometimes one whose name needs escaping
                    let mut name = if r.chance(1, 2) { nasty_path(&mut r) } else { b"no-such-file".to_vec() };
                    while paths.contains(&name) {
                        name.push(b'_');
                    }
                    ps.push(hexs(&name));
                }
                1 if f.keyed.is_none() => {
                    ps.push(hexs(b"-"));
                    data.push(DataSpec::Random { seed: r.next(), len: r.usize_below(3000) });
                    stdin = Some(data.len() - 1);
                }
                _ => ps.push(hexs(r.pick(&paths[..]).as_slice())),
            }
        }
        if r.chance(1, 15) {
            ps.clear(); // no file argument: stdin is hashed (or --keyed is refused)
            if f.keyed.is_none() {
                data.push(DataSpec::Random { seed: r.next(), len: r.usize_below(3000) });
                stdin = Some(data.len() - 1);
            }
        }
        if r.chance(1, 25) {
            f.bogus = Some((*r.pick(&["--no-such-flag", "--length=-1", "--seek=x"])).to_string());
        }
        ops.push(Op::CliHash { paths: ps, flags: f, stdin, save: None });
    }
    if r.chance(1, 8) {
        // a path whose stat size says nothing about its contents (/proc file, pipe opened by path)
        data.push(DataSpec::Random { seed: r.next(), len: r.usize_below(40000) });
        let f = CliFlags { no_mmap: r.chance(1, 3), tag: r.chance(1, 3), num_threads: if r.chance(1, 2) { Some(*r.pick(&[1u8, 2, 16])) } else { None }, ..CliFlags::default() };
        ops.push(Op::CliSpecial { kind: r.below(2) as u8, flags: f, data: data.len() - 1 });
    }
    single("C12", "c12-hash", seed, Cfg::default(), data, Level::Detect, ops)
}

fn damage(r: &mut Rng) -> Damage {
    match r.below(10) {
        0 => Damage::Crlf,
        1 | 2 | 3 | 4 => Damage::Line {
            line: r.usize_below(8),
            pos: match r.below(4) {
                0 => 58 + r.usize_below(9),
                1 => r.usize_below(4),
                _ => r.usize_below(120),
            },
            edit: r.below(4) as u8,
            ch: (*r.pick(&["0", "g", "F", " ", "\\", "\r", "\u{FFFD}", "\0", "é", "日", "😀", ")", "x"])).to_string(),
        },
        5 | 6 => {
            let junk: &[&[u8]] = &[b"", b"garbage", b"0123  x", b"\\", b"BLAKE3 (x) = 00", b"  a", b"\r"];
            Damage::AppendLine { text_hex: hexs(*r.pick(junk)) }
        }
        7 => Damage::TruncateBytes { n: r.usize_below(400) },
        8 => Damage::InvalidUtf8 { at: r.usize_below(400) },
        _ => Damage::DropFinalNewline,
    }
}

fn check_scenario(r: &mut Rng, prop: &str, family: &str, seed: u64, nasty_p: u64) -> Plan {
    let mut data = Vec::new();
    let mut ops = Vec::new();
    let nfiles = 2 + r.usize_below(4);
    let mut paths: Vec<Vec<u8>> = Vec::new();
    // pairs engineered to collide under a sloppy parser
    let pairs: &[(&[u8], &[u8])] = &[(b"a  b", b"a b"), (b"x\ny", b"x\\ny"), (b"q) = r", b"q"), (b"BLAKE3 (z", b"z"), (b"t\xff", b"t\xfe"), (b"cr\r", b"cr")];
    if r.below(100) < nasty_p {
        let (a, b) = *r.pick(pairs);
        paths.push(a.to_vec());
        paths.push(b.to_vec());
    }
    if r.below(1000) < nasty_p * 2 {
        paths.push(deep_nasty_path(r));
    }
    while paths.len() < nfiles {
        let p = if r.below(100) < nasty_p { nasty_path(r) } else { PLAIN_NAMES[r.usize_below(PLAIN_NAMES.len())].to_vec() };
        if !paths.contains(&p) {
            paths.push(p);
        }
    }
    for p in &paths {
        let len = file_len(r);
        data.push(DataSpec::Random { seed: r.next(), len });
        ops.push(Op::CliFile { path_hex: hexs(p), data: data.len() - 1 });
    }
    let ncf = 1 + r.usize_below(2);
    let mut cfs = Vec::new();
    let seek = if r.chance(1, 8) { Some(xof_pos(r).min(u64::MAX - 32)) } else { None };
    for c in 0..ncf {
        let mut f = CliFlags { tag: r.chance(1, 2), no_mmap: r.chance(1, 3), seek, ..CliFlags::default() };
        if r.chance(1, 3) {
            f.num_threads = Some(*r.pick(&[1u8, 2, 16]));
        }
        let mut ps: Vec<String> = paths.iter().filter(|_| r.chance(3, 4)).map(|p| hexs(p)).collect();
        if ps.is_empty() {
            ps.push(hexs(&paths[0]));
        }
        if r.below(100) < nasty_p / 4 + 3 {
            // one of the inputs cannot be opened (its name may need escaping): the lines of the others must
            // come out exactly as they would alone
            let mut name = nasty_path(r);
            while paths.contains(&name) {
                name.push(b'_');
            }
            let at = r.usize_below(ps.len() + 1);
            ps.insert(at, hexs(&name));
        }
        ops.push(Op::CliHash { paths: ps, flags: f, stdin: None, save: Some(c) });
        cfs.push(c);
    }
    if ncf == 2 && r.chance(1, 3) {
        // one checkfile made of both (plain and --tag lines mixed, in either order)
        let (a, b) = if r.chance(1, 2) { (0, 1) } else { (1, 0) };
        ops.push(Op::CliDamage { cf: a, kind: Damage::Concat { other: b } });
    }
    if r.chance(1, 6) {
        // an entry repeated with "/" or "/." behind its (regular) file name: no such path can be read
        let suf: &[u8] = *r.pick(&[&b"/"[..], &b"/."[..], &b"//"[..], &b"/.."[..]]);
        ops.push(Op::CliDamage { cf: *r.pick(&cfs), kind: Damage::DupWithSuffix { line: r.usize_below(8), suffix_hex: hexs(suf) } });
    }
    if r.chance(1, 10) {
        // a long checkfile (every entry many times): the reader's buffer boundaries fall inside lines and characters
        ops.push(Op::CliDamage { cf: *r.pick(&cfs), kind: Damage::RepeatSelf { n: 40 + r.usize_below(400) } });
    }
    // faults between the two runs
    let nf = r.usize_below(4);
    for _ in 0..nf {
        if r.chance(1, 2) {
            ops.push(Op::CliFsFault { path_hex: hexs(r.pick(&paths[..]).as_slice()), kind: r.below(4) as u8 });
        } else {
            ops.push(Op::CliDamage { cf: *r.pick(&cfs), kind: damage(r) });
        }
    }
    let mut f = CliFlags { no_mmap: r.chance(1, 3), seek, ..CliFlags::default() };
    if r.chance(1, 3) {
        f.num_threads = Some(*r.pick(&[1u8, 2, 16]));
    }
    if r.chance(1, 12) {
        cfs.push(77); // a checkfile that does not exist
    }
    let via_stdin = cfs.len() == 1 && r.chance(1, 5);
    ops.push(Op::CliCheck { cfs, flags: f, quiet: r.chance(1, 4), via_stdin });
    single(prop, family, seed, Cfg::default(), data, Level::Detect, ops)
}

pub fn c12_check(base_seed: u64, i: u64, _g: &GenCtx) -> Plan {
    let seed = mix(base_seed ^ 0xC12C, i);
    let mut r = Rng::new(seed);
    check_scenario(&mut r, "C12", "c12-check", seed, 15)
}

/// C12: --check runs whose number of failing entries reaches 255..257, 512, 65536 ... (the count decides the exit status)
pub fn c12_manyfail(base_seed: u64, i: u64, _g: &GenCtx) -> Plan {
    let seed = mix(base_seed ^ 0xC12F, i);
    let mut r = Rng::new(seed);
    let mut data = Vec::new();
    let mut ops = Vec::new();
    let nfiles = 1 + r.usize_below(2);
    let mut paths = Vec::new();
    for k in 0..nfiles {
        let len = r.usize_below(200);
        data.push(DataSpec::Random { seed: r.next(), len });
        ops.push(Op::CliFile { path_hex: hexs(PLAIN_NAMES[k]), data: data.len() - 1 });
        paths.push(hexs(PLAIN_NAMES[k]));
    }
    let ncf = 1 + r.usize_below(2);
    let mut cfs = Vec::new();
    for c in 0..ncf {
        let f = CliFlags { tag: r.chance(1, 2), ..CliFlags::default() };
        ops.push(Op::CliHash { paths: paths.clone(), flags: f, stdin: None, save: Some(c) });
        cfs.push(c);
    }
    // total failing entries: around a multiple of 256 (mostly exactly on it), split over the checkfiles
    let base = *r.pick(&[256usize, 256, 256, 512, 768, 1024, 65536, 65536 + 256]);
    let total = match r.below(6) {
        0 => base - 1,
        1 => base + 1,
        _ => base,
    };
    let first = if ncf == 2 { r.usize_below(total + 1) } else { total };
    let lines: &[&[u8]] = &[
        b"garbage",
        b"0000000000000000000000000000000000000000000000000000000000000000  no-such-file",
        b"0000000000000000000000000000000000000000000000000000000000000000  a",
        b"BLAKE3 (a) = 00",
        b"",
    ];
    for (k, n) in [(0usize, first), (1, total - first)] {
        if k < ncf && n > 0 {
            ops.push(Op::CliDamage { cf: k, kind: Damage::AppendLines { text_hex: hexs(*r.pick(lines)), n } });
        }
    }
    let f = CliFlags { no_mmap: r.chance(1, 3), ..CliFlags::default() };
    ops.push(Op::CliCheck { cfs, flags: f, quiet: r.chance(1, 2), via_stdin: false });
    single("C12", "c12-manyfail", seed, Cfg::default(), data, Level::Detect, ops)
}

pub fn c13_e2e(base_seed: u64, i: u64, _g: &GenCtx) -> Plan {
    let seed = mix(base_seed ^ 0xC13E, i);
    let mut r = Rng::new(seed);
    check_scenario(&mut r, "C13", "c13-e2e", seed, 85)
}

pub fn c13_parse(base_seed: u64, i: u64, _g: &GenCtx) -> Plan {
    let seed = mix(base_seed ^ 0xC13, i);
    let mut r = Rng::new(seed);
    let mut ops = Vec::new();
    let n = 1 + r.usize_below(4);
    for _ in 0..n {
        let p = if r.chance(1, 5) {
            PLAIN_NAMES[r.usize_below(PLAIN_NAMES.len())].to_vec()
        } else if r.chance(1, 30) {
            deep_nasty_path(&mut r)
        } else {
            nasty_path(&mut r)
        };
        let (tag, crlf) = (r.chance(1, 2), r.chance(1, 3));
        ops.push(Op::PathRoundTrip { path_hex: hexs(&p), tag, crlf });
        if r.chance(1, 3) && p.len() <= 300 {
            ops.push(Op::ParseMutations { path_hex: hexs(&p), tag, crlf });
        }
    }
    single("C13", "c13-parse", seed, Cfg::default(), Vec::new(), Level::Detect, ops)
}

/// C11 file half on special files
pub fn c11_special(base_seed: u64, i: u64, _g: &GenCtx) -> Plan {
    let seed = mix(base_seed ^ 0x5EC1, i);
    let mut r = Rng::new(seed);
    // the large sysfs file is expensive: rarely
    let kind = if r.chance(1, 40) { 4 } else { *r.pick(&[0u8, 1, 2, 3, 5, 6, 7, 7, 8]) };
    single("C11", "c11-special", seed, Cfg::default(), Vec::new(), Level::Detect, vec![Op::FileKinds { kind }])
}

/// C11 file half: a file of 2^32 bytes and a little more
pub fn c11_hugefile(base_seed: u64, i: u64, g: &GenCtx) -> Plan {
    let seed = mix(base_seed ^ 0x4064F, i);
    let mut r = Rng::new(seed);
    // quick: the parallel adapter (page faults on 4 GiB are slow one thread at a time)
    let via = if g.tier_thorough { (i % 3) as u8 } else { 1 };
    let ops = vec![Op::HugeFile { extra: *r.pick(&[0u32, 1, 16383, 16384, 70000]), seed: r.next(), via }];
    single("C11", "c11-hugefile", seed, Cfg::default(), Vec::new(), Level::Detect, ops)
}

/// C11: Write::write / write_all / io::copy with very large single buffers
pub fn c11_bigwrite(base_seed: u64, i: u64, g: &GenCtx) -> Plan {
    let seed = mix(base_seed ^ 0xB16, i);
    let mut r = Rng::new(seed);
    let mib = 1usize << 20;
    let len = match r.below(6) {
        0 => mib + 1 + r.usize_below(5000),
        1 => mib - r.usize_below(3),
        2 => 2 * mib + r.usize_below(mib),
        3 => 65536 * (1 + r.usize_below(40)) + r.usize_below(3),
        _ => r.usize_below(if g.tier_thorough { 8 * mib } else { 3 * mib }),
    };
    let mut data = vec![DataSpec::Random { seed: r.next(), len }];
    let m = mode(&mut r, &mut data);
    let via = match r.below(6) {
        0 => AbsorbVia::Write,
        1 => AbsorbVia::WriteAll,
        2 => AbsorbVia::IoCopy(ReaderScript { steps: vec![], junk: false, tail_chunk: 0 }),
        3 | 4 => {
            // gathered writes: header-sized and payload-sized slices in one write_vectored call
            let n = 2 + r.usize_below(4);
            AbsorbVia::WriteVectored { cuts: (0..n).map(|_| *r.pick(&[0u32, 1, 8, 63, 64, 65, 1000, 1023, 1024, 1025, 4096, 70000])).collect() }
        }
        _ => AbsorbVia::Update,
    };
    // (gathered writes take many calls: keep those inputs moderate)
    let len = if matches!(via, AbsorbVia::WriteVectored { .. }) { len % (200 * KIB) } else { len };
    data[0].set_len(len);
    let ops = vec![
        Op::NewHasher { slot: 0, mode: m, via: NewVia::Inherent },
        Op::Absorb { h: 0, data: 0, off: 0, len, via },
        Op::Count { h: 0 },
        Op::Finalize { h: 0, via: FinVia::Inherent },
    ];
    single("C11", "c11-bigwrite", seed, Cfg::default(), data, level(&mut r, g.avail), ops)
}


/// C08: update_mmap_rayon on files large enough for any internal windowing (few, expensive runs)
pub fn c08_bigmmap(base_seed: u64, i: u64, g: &GenCtx) -> Plan {
    let seed = mix(base_seed ^ 0xB166, i);
    let mut r = Rng::new(seed);
    let mib = 1usize << 20;
    if r.chance(1, 12) {
        // a large file that cannot be mapped (sysfs): update_mmap_rayon must fall back to reads, also when called again
        return single("C08", "c08-bigmmap", seed, Cfg::default(), Vec::new(), Level::Detect, vec![Op::FileKinds { kind: 4 }, Op::FileKinds { kind: 4 }]);
    }
    let len = match r.below(5) {
        0 => 8 * mib + 1 + r.usize_below(5000),
        1 => 16 * mib + r.usize_below(mib),
        2 => (1 + r.usize_below(if g.tier_thorough { 40 } else { 20 })) * mib + r.usize_below(3),
        3 => 4 * mib + r.usize_below(4 * mib),
        _ => mib + r.usize_below(12 * mib),
    };
    let mut data = vec![DataSpec::Random { seed: r.next(), len }];
    let m = mode(&mut r, &mut data);
    let via = match r.below(4) {
        0 => AbsorbVia::Mmap,
        1 => AbsorbVia::Rayon { width: *r.pick(&[2u8, 4, 16]) },
        _ => AbsorbVia::MmapRayon,
    };
    let ops = vec![
        Op::NewHasher { slot: 0, mode: m, via: NewVia::Inherent },
        Op::Absorb { h: 0, data: 0, off: 0, len, via },
        Op::Finalize { h: 0, via: FinVia::Inherent },
        Op::FinalizeXof { h: 0, r: None, n: 131, via: FinVia::Inherent },
    ];
    single("C08", "c08-bigmmap", seed, Cfg::default(), data, level(&mut r, g.avail), ops)
}

/// C18: long reader streams on several tasks at once (state kept across many reads of one stream)
pub fn c18_streams(base_seed: u64, i: u64, g: &GenCtx) -> Plan {
    let seed = mix(base_seed ^ 0x57EA, i);
    let mut r = Rng::new(seed);
    let mib = 1usize << 20;
    let ntasks = 2 + r.usize_below(2);
    let mut data = Vec::new();
    let mut tasks = Vec::new();
    let mut slot = 0;
    for _ in 0..ntasks {
        let mut ops = Vec::new();
        let streams = 1 + r.usize_below(2);
        for _ in 0..streams {
            let len = match r.below(3) {
                0 => 4 * mib + 1 + r.usize_below(2 * mib),
                1 => r.usize_below(mib),
                _ => mib + r.usize_below(if g.tier_thorough { 8 * mib } else { 5 * mib }),
            };
            data.push(DataSpec::Random { seed: r.next(), len });
            let di = data.len() - 1;
            let h = slot;
            slot += 1;
            ops.push(Op::NewHasher { slot: h, mode: mode(&mut r, &mut data), via: NewVia::Inherent });
            let mut script = ReaderScript { steps: vec![], junk: r.chance(1, 2), tail_chunk: *r.pick(&[0u32, 65536, 1 << 20, 70000]) };
            if r.chance(1, 3) {
                for _ in 0..r.usize_below(6) {
                    script.steps.push(RStep::Data(read_chunk(&mut r)));
                }
                add_storms(&mut r, &mut script);
            }
            ops.push(Op::Absorb { h, data: di, off: 0, len, via: reader_via(&mut r, script) });
            ops.push(Op::Finalize { h, via: FinVia::Inherent });
        }
        tasks.push(TaskPlan { level: level(&mut r, g.avail), ops });
    }
    let mut p = multi("C18", "c18-streams", seed, Cfg { pool_width: 1, ..Cfg::default() }, data, tasks, &mut r);
    // long runs: sticky schedules so that each task makes real progress between switches
    p.schedule = Schedule::Gen { kind: *r.pick(&[SchedKind::Sticky { switch: 26 }, SchedKind::Sticky { switch: 3 }, SchedKind::Bursty { points: 3, horizon: 600 }]), seed: r.next() };
    p
}

/// C18: independent hashers on several tasks hashing the SAME files (mapped, mapped + rayon, read)
pub fn c18_sharedfile(base_seed: u64, i: u64, g: &GenCtx) -> Plan {
    let seed = mix(base_seed ^ 0x5F11E, i);
    let mut r = Rng::new(seed);
    let ntasks = 2 + r.usize_below(3);
    let mut data = Vec::new();
    let nfiles = 1 + r.usize_below(2);
    for _ in 0..nfiles {
        let len = match r.below(5) {
            0 => 16383 + r.usize_below(3),
            1 => r.usize_below(16384),
            2 => 16384 + r.usize_below(20 * KIB),
            _ => 16 * KIB + r.usize_below(if g.tier_thorough { 600 * KIB } else { 150 * KIB }),
        };
        data.push(DataSpec::Random { seed: r.next(), len });
    }
    data.push(DataSpec::Random { seed: r.next(), len: 3000 });
    let pre = data.len() - 1;
    let mut tasks = Vec::new();
    let mut slot = 0;
    for _ in 0..ntasks {
        let mut ops = Vec::new();
        for _ in 0..(1 + r.usize_below(3)) {
            let h = slot;
            slot += 1;
            ops.push(Op::NewHasher { slot: h, mode: mode(&mut r, &mut data), via: NewVia::Inherent });
            if r.chance(1, 3) {
                ops.push(Op::Absorb { h, data: pre, off: 0, len: r.usize_below(3000), via: AbsorbVia::Update });
            }
            let f = r.usize_below(nfiles);
            let len = data[f].len();
            ops.push(Op::Absorb { h, data: f, off: 0, len, via: AbsorbVia::SharedFile { how: r.below(3) as u8 } });
            ops.push(Op::Finalize { h, via: FinVia::Inherent });
        }
        tasks.push(TaskPlan { level: level(&mut r, g.avail), ops });
    }
    let mut p = multi("C18", "c18-sharedfile", seed, Cfg { pool_width: 1, ..Cfg::default() }, data, tasks, &mut r);
    p.schedule = schedule(&mut r);
    p
}

pub fn c04_giant(base_seed: u64, i: u64, g: &GenCtx) -> Plan {
    as_c04(c09_giant(base_seed ^ 0x4004, i, g), "c04-c09giant")
}
pub fn c04_cluster(base_seed: u64, i: u64, g: &GenCtx) -> Plan {
    as_c04(c09(base_seed ^ 0x4004, i, g), "c04-c09")
}


// ---------------------------------------------------------------------------------------------
// C07: native code stays inside its buffers and obeys the calling convention

pub fn c07_kernels(base_seed: u64, i: u64, _g: &GenCtx) -> Plan {
    let seed = mix(base_seed ^ 0xC07, i);
    let mut r = Rng::new(seed);
    let nk = crate::kernels::table_len();
    let mut ops = Vec::new();
    for _ in 0..(1 + r.usize_below(6)) {
        let k = r.usize_below(nk);
        let counter = match r.below(6) {
            0 => 0,
            1 => (1u64 << 32) - 1 - r.below(20),
            2 => u64::MAX - 40 - r.below(40),
            3 => r.below(1000),
            _ => r.next() >> r.below(64),
        };
        let a = KArgs {
            n: match r.below(5) {
                0 => r.usize_below(3),
                _ => r.usize_below(34),
            },
            blocks16: r.chance(1, 2),
            counter,
            incr: r.chance(1, 2),
            flags: r.next() as u8,
            fs: r.next() as u8,
            fe: r.next() as u8,
            block_len: r.below(65) as u8,
            places: r.next() as u32,
            seed: r.next(),
        };
        ops.push(Op::Kernel { k, a });
    }
    single("C07", "c07-kernels", seed, Cfg { guard_alloc: true, ..Cfg::default() }, Vec::new(), Level::Detect, ops)
}

pub fn c07_capi(base_seed: u64, i: u64, g: &GenCtx) -> Plan {
    let mut p = c06(base_seed ^ 0x707, i, g);
    p.prop = "C07".into();
    p.family = "c07-c-api".into();
    p.cfg.guard_alloc = true;
    p
}

/// C07: one finalize call with out_len just above 2^32 (size_t arithmetic the 32-bit habits get wrong)
pub fn c07_hugeout(base_seed: u64, i: u64, _g: &GenCtx) -> Plan {
    let seed = mix(base_seed ^ 0x4064, i);
    let mut r = Rng::new(seed);
    let mut data = Vec::new();
    let m = c_mode(&mut r, &mut data);
    // (a fresh hasher half of the time: only then can one update call hold a subtree of 2^32 bytes)
    let len = if r.chance(1, 2) { 0 } else { r.usize_below(3000) };
    data.push(DataSpec::Random { seed: r.next(), len });
    let di = data.len() - 1;
    let seek = match r.below(3) {
        0 => None,
        1 => Some(r.below(200)),
        _ => Some(xof_pos(&mut r).min(u64::MAX - (1u64 << 33))),
    };
    let mut ops = vec![
        Op::CSetMask { mask: 0x7f },
        Op::CInit { slot: 0, flavour: r.below(2) as u8, mode: m, raw: false },
        Op::CUpdate { c: 0, data: di, off: 0, len, tbb: None },
    ];
    if i % 2 == 0 {
        ops.push(Op::CFinalizeHuge { c: 0, seek, extra: *r.pick(&[0u32, 1, 63, 64, 65, 200]) });
        ops.push(Op::CFinalize { c: 0, seek: None, out_len: 32 });
    } else {
        // ... or one update call with input_len just above 2^32
        ops.push(Op::CUpdateHuge { c: 0, extra: *r.pick(&[0u32, 1, 1023, 1024, 5000, 70001]) });
    }
    let mut p = single("C07", "c07-hugeout", seed, Cfg::default(), data, Level::Detect, ops);
    p.cfg.guard_alloc = true;
    p
}

/// C06: one update call of 2^32 + k bytes (size_t arithmetic above 32 bits), any mode, either flavour
pub fn c06_hugein(base_seed: u64, i: u64, g: &GenCtx) -> Plan {
    let mut p = c07_hugeout(base_seed ^ 0x606, 2 * i + 1, g);
    p.prop = "C06".into();
    p.family = "c06-hugein".into();
    p.cfg.guard_alloc = false;
    p
}

pub fn c07_rustapi(base_seed: u64, i: u64, g: &GenCtx) -> Plan {
    // single-task hasher / reader histories of C03 and C11 with every caller buffer guard-placed
    let mut p = if i % 2 == 0 { c03(base_seed ^ 0x707, i, g) } else { c11_reader(base_seed ^ 0x707, i * 13, g) };
    p.prop = "C07".into();
    p.family = "c07-rust-api".into();
    p.cfg.guard_alloc = true;
    p
}


/// C11 / C12: one system call on the hashed file fails (strace fault injection on a child process)
fn sysfault_plan(prop: &str, family: &str, seed: u64, b3sum: bool) -> Plan {
    let mut r = Rng::new(seed);
    let len = match r.below(6) {
        0 => 16383 + r.usize_below(3),
        1 => 65536 * (1 + r.usize_below(3)) + r.usize_below(2),
        2 => r.usize_below(3000),
        3 => 0,
        _ => 16384 + r.usize_below(300_000),
    };
    let data = vec![DataSpec::Random { seed: r.next(), len }];
    let target = if b3sum { 3 + r.below(2) as u8 } else { r.below(3) as u8 };
    let maps = matches!(target, 0 | 1 | 3);
    let reads = ((len + 65535) / 65536 + 1) as u32;
    // mostly faults that the run will actually meet; a few that it will not (they must change nothing)
    let (syscall, when) = if r.chance(1, 6) {
        (r.below(3) as u8, 1 + r.below(7) as u32)
    } else if maps && len >= 16384 && r.chance(2, 3) {
        (r.below(2) as u8, 1)
    } else if maps {
        (1, 1)
    } else {
        (2, 1 + r.below(reads as u64) as u32)
    };
    let ops = vec![Op::SysFault { target, data: 0, syscall, errno: r.below(5) as u8, when }];
    single(prop, family, seed, Cfg::default(), data, Level::Detect, ops)
}

pub fn c11_syscall(base_seed: u64, i: u64, _g: &GenCtx) -> Plan {
    sysfault_plan("C11", "c11-syscall", mix(base_seed ^ 0x5CA1, i), false)
}

pub fn c12_syscall(base_seed: u64, i: u64, _g: &GenCtx) -> Plan {
    sysfault_plan("C12", "c12-syscall", mix(base_seed ^ 0x5CA2, i), true)
}


/// C18: first use — small programs whose first operations are the process's first calls into the library
pub fn c18_firstuse(base_seed: u64, i: u64, g: &GenCtx) -> Plan {
    let seed = mix(base_seed ^ 0xF1157, i);
    let mut r = Rng::new(seed);
    let ntasks = 2 + r.usize_below(5);
    let mut data = Vec::new();
    let mut slot = 0;
    let mut tasks = Vec::new();
    let hammer = r.chance(1, 3);
    for _ in 0..ntasks {
        let mut ops = Vec::new();
        if hammer {
            // a key-derivation service: many short derivations under a couple of long, per-task contexts
            let mut ctxs = Vec::new();
            for _ in 0..2 {
                data.push(DataSpec::Random { seed: r.next(), len: 66 + r.usize_below(40) });
                ctxs.push(data.len() - 1);
            }
            data.push(DataSpec::Random { seed: r.next(), len: 64 });
            let di = data.len() - 1;
            for k in 0..(80 + r.usize_below(80)) {
                ops.push(Op::OneShot { mode: Mode::Derive { ctx: ctxs[(k / 2) % 2] }, data: di, off: k % 32, len: r.usize_below(32) });
            }
            tasks.push(TaskPlan { level: Level::Detect, ops });
            continue;
        }
        // start with something that detects the platform at once
        let len = r.usize_below(3000);
        data.push(data_spec(&mut r, len));
        let di = data.len() - 1;
        ops.push(Op::OneShot { mode: mode(&mut r, &mut data), data: di, off: 0, len });
        if r.chance(1, 2) {
            ops.extend(c_history(&mut r, &mut data, &mut slot, 4 * KIB, false));
        } else {
            ops.extend(solo_program(&mut r, &mut data, &mut slot, g));
        }
        tasks.push(TaskPlan { level: Level::Detect, ops });
    }
    multi("C18", "c18-firstuse", seed, Cfg { pool_width: 1, ..Cfg::default() }, data, tasks, &mut r)
}
