//! Delta-debugging shrinker over plans: keeps a candidate while the same
//! violation class persists. Bounded by wall-clock (shrinking only affects the
//! size of the reported replay, never the verdict).

use crate::plan::*;
use std::time::{Duration, Instant};

pub type Test<'a> = &'a mut dyn FnMut(&Plan) -> Option<Violation>;

fn same(v: &Option<Violation>, class: &str) -> bool {
    let memsafe = |c: &str| matches!(c, "memory-fault" | "canary" | "register-clobber");
    v.as_ref().map_or(false, |v| v.class == class || (memsafe(&v.class) && memsafe(class)))
}

fn len_candidates(n: usize) -> Vec<usize> {
    let mut c = vec![0, n / 2, n & !1023, n & !63, n.saturating_sub(1024), n.saturating_sub(64), n.saturating_sub(1)];
    c.retain(|&x| x < n);
    c.sort_unstable();
    c.dedup();
    c
}

fn simplify_via(op: &mut Op) -> bool {
    match op {
        Op::Absorb { via, .. } if *via != AbsorbVia::Update => {
            *via = AbsorbVia::Update;
            true
        }
        Op::Read { via, .. } if *via != ReadVia::Fill => {
            *via = ReadVia::Fill;
            true
        }
        Op::Finalize { via, .. } | Op::FinalizeXof { via, .. } if *via != FinVia::Inherent => {
            *via = FinVia::Inherent;
            true
        }
        Op::Reset { via, .. } if *via != ResetVia::Inherent => {
            *via = ResetVia::Inherent;
            true
        }
        Op::NewHasher { via, .. } if *via != NewVia::Inherent => {
            *via = NewVia::Inherent;
            true
        }
        Op::CUpdate { tbb, .. } if tbb.is_some() => {
            *tbb = None;
            true
        }
        _ => false,
    }
}

fn op_len_mut(op: &mut Op) -> Option<&mut usize> {
    match op {
        Op::Absorb { len, .. } | Op::OneShot { len, .. } | Op::CUpdate { len, .. } => Some(len),
        Op::Read { n, .. } | Op::FinalizeXof { n, .. } | Op::ConcurrentFinalize { n, .. } => Some(n),
        Op::CFinalize { out_len, .. } => Some(out_len),
        _ => None,
    }
}

fn script_mut(op: &mut Op) -> Option<&mut ReaderScript> {
    match op {
        Op::Absorb { via: AbsorbVia::Reader(s) | AbsorbVia::ReaderDyn(s) | AbsorbVia::IoCopy(s), .. } => Some(s),
        _ => None,
    }
}

pub fn shrink(plan: &Plan, recorded: &[u8], class: &str, test: Test, budget: Duration) -> (Plan, Violation) {
    let t0 = Instant::now();
    let mut best = plan.clone();
    // make the schedule explicit first
    let mut cand = best.clone();
    cand.schedule = Schedule::Explicit { choices: recorded.to_vec() };
    let mut best_v = test(&best).expect("violation must reproduce before shrinking");
    if let Some(v) = test(&cand) {
        if same(&Some(v.clone()), class) {
            best = cand;
            best_v = v;
        }
    }
    let over = |t0: &Instant| t0.elapsed() > budget;
    macro_rules! try_cand {
        ($c:expr) => {{
            let c = $c;
            let v = test(&c);
            if same(&v, class) {
                best = c;
                best_v = v.unwrap();
                true
            } else {
                false
            }
        }};
    }
    loop {
        let mut progress = false;
        // 1. drop tasks
        let mut t = best.tasks.len();
        while t > 0 && best.tasks.len() > 1 && !over(&t0) {
            t -= 1;
            let mut c = best.clone();
            c.tasks.remove(t);
            if try_cand!(c) {
                progress = true;
            }
        }
        // 2. drop ops (from the back)
        for ti in 0..best.tasks.len() {
            let mut j = best.tasks[ti].ops.len();
            while j > 0 && !over(&t0) {
                j -= 1;
                if j >= best.tasks[ti].ops.len() {
                    continue;
                }
                let mut c = best.clone();
                c.tasks[ti].ops.remove(j);
                if try_cand!(c) {
                    progress = true;
                }
            }
        }
        // 3. plain adapters, portable level, Hash mode
        for ti in 0..best.tasks.len() {
            for j in 0..best.tasks[ti].ops.len() {
                if over(&t0) {
                    break;
                }
                let mut c = best.clone();
                if simplify_via(&mut c.tasks[ti].ops[j]) && try_cand!(c) {
                    progress = true;
                }
                let mut c = best.clone();
                let changed = match &mut c.tasks[ti].ops[j] {
                    Op::NewHasher { mode, .. } | Op::OneShot { mode, .. } | Op::CInit { mode, .. } if *mode != Mode::Hash => {
                        *mode = Mode::Hash;
                        true
                    }
                    _ => false,
                };
                if changed && try_cand!(c) {
                    progress = true;
                }
            }
            if best.tasks[ti].level != Level::Portable && !over(&t0) {
                let mut c = best.clone();
                c.tasks[ti].level = Level::Portable;
                if try_cand!(c) {
                    progress = true;
                }
            }
        }
        // 4. reader scripts: drop steps
        for ti in 0..best.tasks.len() {
            for j in 0..best.tasks[ti].ops.len() {
                let n = script_mut(&mut best.tasks[ti].ops[j].clone()).map_or(0, |s| s.steps.len());
                let mut k = n;
                while k > 0 && !over(&t0) {
                    k -= 1;
                    let mut c = best.clone();
                    if let Some(s) = script_mut(&mut c.tasks[ti].ops[j]) {
                        if k < s.steps.len() {
                            s.steps.remove(k);
                            if try_cand!(c) {
                                progress = true;
                            }
                        }
                    }
                }
                let mut c = best.clone();
                if let Some(s) = script_mut(&mut c.tasks[ti].ops[j]) {
                    if s.junk || s.tail_chunk != 0 {
                        s.junk = false;
                        s.tail_chunk = 0;
                        if try_cand!(c) {
                            progress = true;
                        }
                    }
                }
            }
        }
        // 5. lengths and offsets
        for ti in 0..best.tasks.len() {
            for j in 0..best.tasks[ti].ops.len() {
                let cur = op_len_mut(&mut best.tasks[ti].ops[j].clone()).map(|l| *l);
                if let Some(cur) = cur {
                    for cand_len in len_candidates(cur) {
                        if over(&t0) {
                            break;
                        }
                        let mut c = best.clone();
                        *op_len_mut(&mut c.tasks[ti].ops[j]).unwrap() = cand_len;
                        if try_cand!(c) {
                            progress = true;
                            break;
                        }
                    }
                }
                let mut c = best.clone();
                let changed = match &mut c.tasks[ti].ops[j] {
                    Op::Absorb { off, .. } | Op::OneShot { off, .. } | Op::CUpdate { off, .. } if *off != 0 => {
                        *off = 0;
                        true
                    }
                    _ => false,
                };
                if changed && !over(&t0) && try_cand!(c) {
                    progress = true;
                }
            }
        }
        // 6. data: trim to what is used is implicit; make content constant
        for di in 0..best.data.len() {
            if over(&t0) {
                break;
            }
            if !matches!(best.data[di], DataSpec::Const { byte: 0, .. }) {
                let mut c = best.clone();
                c.data[di] = DataSpec::Const { len: best.data[di].len(), byte: 0 };
                if try_cand!(c) {
                    progress = true;
                }
            }
        }
        // 7. schedule: zero choices (back to front, in blocks), then truncate
        if let Schedule::Explicit { choices } = &best.schedule {
            let n = choices.len();
            let mut block = (n / 2).max(1);
            while block >= 1 && n > 0 && !over(&t0) {
                let mut start = n;
                while start > 0 && !over(&t0) {
                    let lo = start.saturating_sub(block);
                    let mut c = best.clone();
                    let mut changed = false;
                    if let Schedule::Explicit { choices } = &mut c.schedule {
                        let hi = start.min(choices.len());
                        for x in choices[lo.min(hi)..hi].iter_mut() {
                            if *x != 0 {
                                *x = 0;
                                changed = true;
                            }
                        }
                    }
                    if changed && try_cand!(c) {
                        progress = true;
                    }
                    start = lo;
                }
                if block == 1 {
                    break;
                }
                block /= 2;
            }
            let mut c = best.clone();
            if let Schedule::Explicit { choices } = &mut c.schedule {
                while choices.last() == Some(&0) {
                    choices.pop();
                }
            }
            if c != best && try_cand!(c) {
                // not counted as progress: purely cosmetic
            }
        }
        if !progress || over(&t0) {
            break;
        }
    }
    (best, best_v)
}
