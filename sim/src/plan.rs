//! Plan data model: everything a run does is written down here before it runs.
//! plan(seed) -> Plan is pure generation; exec(Plan) draws nothing.

use crate::rng::Rng;
use serde::{Deserialize, Serialize};

#[derive(Serialize, Deserialize, Clone, Debug, PartialEq)]
pub struct Plan {
    pub prop: String,
    pub family: String,
    pub seed: u64,
    pub cfg: Cfg,
    pub data: Vec<DataSpec>,
    pub tasks: Vec<TaskPlan>,
    pub schedule: Schedule,
}

#[derive(Serialize, Deserialize, Clone, Debug, PartialEq, Default)]
pub struct Cfg {
    /// pool width for SimJoin concurrency (max live child tasks + 1)
    #[serde(default)]
    pub pool_width: u8,
    /// compare every hash / output against SpecModel in addition to the crate-level oracle
    #[serde(default)]
    pub model_oracle: bool,
    /// place caller-visible buffers flush against PROT_NONE pages
    #[serde(default)]
    pub guard_alloc: bool,
    /// secret swap run (C17 self-composition): XOR every data byte with this
    #[serde(default)]
    pub secret_xor: u8,
    /// every simulated task gets a brand-new OS thread instead of a pooled one (whatever the library keeps
    /// per thread then sees many thread identities over the life of the process)
    #[serde(default)]
    pub fresh_threads: bool,
}

#[derive(Serialize, Deserialize, Clone, Debug, PartialEq)]
pub struct TaskPlan {
    pub level: Level,
    pub ops: Vec<Op>,
}

#[derive(Serialize, Deserialize, Clone, Copy, Debug, PartialEq, Eq, Hash, PartialOrd, Ord)]
pub enum Level {
    Detect,
    Portable,
    SSE2,
    SSE41,
    AVX2,
    AVX512,
}

#[derive(Serialize, Deserialize, Clone, Debug, PartialEq)]
pub enum DataSpec {
    Random { seed: u64, len: usize },
    Periodic { len: usize, start: u8 },
    Const { len: usize, byte: u8 },
    Explicit { hex: String },
}

impl DataSpec {
    pub fn len(&self) -> usize {
        match self {
            DataSpec::Random { len, .. } | DataSpec::Periodic { len, .. } | DataSpec::Const { len, .. } => *len,
            DataSpec::Explicit { hex } => hex.len() / 2,
        }
    }
    pub fn set_len(&mut self, n: usize) {
        match self {
            DataSpec::Random { len, .. } | DataSpec::Periodic { len, .. } | DataSpec::Const { len, .. } => *len = n,
            DataSpec::Explicit { hex } => hex.truncate(n * 2),
        }
    }
    pub fn materialize(&self, xor: u8) -> Vec<u8> {
        let mut v = match self {
            DataSpec::Random { seed, len } => {
                let mut v = vec![0u8; *len];
                Rng::new(*seed).fill(&mut v);
                v
            }
            DataSpec::Periodic { len, start } => {
                (0..*len).map(|i| ((i + *start as usize) % 251) as u8).collect()
            }
            DataSpec::Const { len, byte } => vec![*byte; *len],
            DataSpec::Explicit { hex } => crate::model::unhex(hex),
        };
        if xor != 0 {
            for b in v.iter_mut() {
                *b ^= xor;
            }
        }
        v
    }
}

#[derive(Serialize, Deserialize, Clone, Debug, PartialEq)]
pub enum Schedule {
    /// choices drawn from a generator seeded here (recorded while executing)
    Gen { kind: SchedKind, seed: u64 },
    /// explicit choice list; exhausted => 0 ("stay")
    Explicit { choices: Vec<u8> },
}

#[derive(Serialize, Deserialize, Clone, Copy, Debug, PartialEq)]
pub enum SchedKind {
    /// every yield picks uniformly
    Uniform,
    /// stay with probability (256-switch)/256
    Sticky { switch: u8 },
    /// run the current task except at up to `points` switch points among the first `horizon` yields
    Bursty { points: u8, horizon: u32 },
    /// PCT: random distinct priorities, the highest-priority ready task runs; at `depth` random change
    /// points among the first `horizon` decisions the running task drops below everyone else
    Pct { depth: u8, horizon: u32 },
}

/// Hasher mode. Keys / contexts come from data entries.
#[derive(Serialize, Deserialize, Clone, Debug, PartialEq)]
pub enum Mode {
    Hash,
    Keyed { key: usize },
    Derive { ctx: usize },
    ContextKey { ctx: usize },
}

#[derive(Serialize, Deserialize, Clone, Copy, Debug, PartialEq)]
pub enum NewVia {
    Inherent,
    /// digest::KeyInit::new (keyed only), Default / Digest::new (hash only)
    Trait,
}

#[derive(Serialize, Deserialize, Clone, Debug, PartialEq)]
pub enum RStep {
    /// yield up to k bytes (k >= 1); at end of data this is Ok(0)
    Data(u32),
    Interrupted,
    /// hard error of this kind index (see exec::err_kind)
    Err(u8),
    /// Ok(0) now, even if data remains
    Eof,
    /// yield up to k bytes, but before returning hash `nested` other bytes through update_reader on
    /// another hasher on this very thread (a reader that demultiplexes into several hashers)
    Nest(u32, u32),
}

#[derive(Serialize, Deserialize, Clone, Debug, PartialEq)]
pub struct ReaderScript {
    pub steps: Vec<RStep>,
    /// scribble junk into buf[n..] on every call (legal for a reader)
    pub junk: bool,
    /// after the script: chunk size of default reads (0 = as much as fits)
    pub tail_chunk: u32,
}

#[derive(Serialize, Deserialize, Clone, Debug, PartialEq)]
pub enum JoinPolicy {
    AllLeft,
    AllRight,
    AllConcurrent,
    /// bit i (mod 64) of `bits` decides split number i: pairs of bits -> 0 left,1 right,2/3 concurrent
    PerSplit { bits: Vec<u8> },
}

#[derive(Serialize, Deserialize, Clone, Debug, PartialEq)]
pub enum AbsorbVia {
    Update,
    Write,
    WriteAll,
    /// Write::write_vectored over the fragment cut into slices (sizes from `cuts`, cyclically; short and long ones
    /// mixed), repeated on the unconsumed rest until everything is written
    WriteVectored { cuts: Vec<u32> },
    /// std::io::copy(&mut SimReader, &mut hasher)
    IoCopy(ReaderScript),
    /// hasher.update_reader(SimReader)
    Reader(ReaderScript),
    /// update_reader(&mut dyn Read) / by-ref adaptor
    ReaderDyn(ReaderScript),
    /// update_reader(SimReader); when the reader stopped early (hard error, early EOF) the caller retries with a
    /// well-behaved reader over exactly the bytes not yet yielded, so the whole fragment ends up absorbed
    ReaderRetry(ReaderScript),
    Rayon { width: u8 },
    SimJoin(JoinPolicy),
    Mmap,
    MmapRayon,
    ReaderFile,
    /// update_mmap (how 0, 2) / update_mmap_rayon (how 1, 3) on a path that cannot be hashed: missing (how 0, 1) or a
    /// directory (how 2, 3). Must return Err and leave the hasher exactly as it was.
    PathError { how: u8 },
    /// a file shared by every task that absorbs the same bytes this way (one path, created once, kept for the run):
    /// how 0 update_mmap, 1 update_mmap_rayon on a one-thread pool adopted by the calling task (its joins and kernel
    /// dispatches are scheduling points of that task), 2 update_reader(File)
    SharedFile { how: u8 },
    TraitUpdate,
    MacUpdate,
    DigestUpdate,
}

#[derive(Serialize, Deserialize, Clone, Copy, Debug, PartialEq)]
pub enum FinVia {
    Inherent,
    /// FixedOutput::finalize_into on a clone / ExtendableOutput::finalize_xof on a clone
    TraitClone,
    /// FixedOutputReset / ExtendableOutputReset (resets the hasher)
    TraitReset,
    /// Mac::finalize on a clone (keyed) / Digest::finalize on a clone
    MacOrDigest,
    /// ExtendableOutputReset::finalize_xof_reset_into (XOF only; resets the hasher)
    TraitResetInto,
}

#[derive(Serialize, Deserialize, Clone, Copy, Debug, PartialEq)]
pub enum ResetVia {
    Inherent,
    DigestReset,
}

#[derive(Serialize, Deserialize, Clone, Copy, Debug, PartialEq)]
pub enum ReadVia {
    Fill,
    Read,
    ReadExact,
    /// (&mut r).take(n).read_to_end
    Take,
    /// io::copy(&mut r.take(n), &mut sink)
    IoCopy,
    XofReader,
}

#[derive(Serialize, Deserialize, Clone, Copy, Debug, PartialEq)]
pub enum Whence {
    Start,
    Current,
    End,
}

#[derive(Serialize, Deserialize, Clone, Copy, Debug, PartialEq)]
pub enum MergeKind {
    NonRoot,
    Root,
    RootXof,
}

#[derive(Serialize, Deserialize, Clone, Debug, PartialEq)]
pub enum Op {
    NewHasher { slot: usize, mode: Mode, via: NewVia },
    Absorb { h: usize, data: usize, off: usize, len: usize, via: AbsorbVia },
    Count { h: usize },
    Finalize { h: usize, via: FinVia },
    /// finalize_xof, read `n` bytes, optionally keep the reader in slot `r`
    FinalizeXof { h: usize, r: Option<usize>, n: usize, via: FinVia },
    /// several hashers fed by update_rayon at the same time from tasks spawned inside one real rayon pool
    /// (work stealing may nest one top-level update inside another on the same worker thread)
    ParallelRayon { items: Vec<(usize, usize, usize, usize)>, width: u8 },
    /// two child tasks finalize / finalize_xof the same &Hasher concurrently
    ConcurrentFinalize { h: usize, n: usize },
    FinalizeNonRoot { h: usize, cv: usize },
    SetOffset { h: usize, off: u64 },
    Reset { h: usize, via: ResetVia },
    CloneH { h: usize, new: usize },
    /// dst.clone_from(&src): the destination keeps its identity (and whatever a sloppy impl forgets to overwrite)
    CloneFromH { src: usize, dst: usize },
    DropSlot { slot: usize },
    /// hand an object (hasher / reader / cv) to another task through the mailbox
    Send { slot: usize, to: usize },
    Recv { slot: usize },

    Read { r: usize, n: usize, via: ReadVia },
    SetPosition { r: usize, p: u64 },
    Seek { r: usize, whence: Whence, v: i64, vu: u64 },
    Position { r: usize },
    CloneR { r: usize, new: usize },

    OneShot { mode: Mode, data: usize, off: usize, len: usize },
    /// the one-shot entry points of the RustCrypto traits: which 0 Digest::digest, 1 ExtendableOutput::digest_xof
    /// (n bytes), 2 Digest::new_with_prefix + finalize, 3 Digest::chain_update chain
    TraitOneShot { data: usize, off: usize, len: usize, which: u8, n: usize },
    /// merge two cv slots; result in cv slot `out` (NonRoot) or checked at once (Root / RootXof)
    Merge { l: usize, r: usize, mode: Mode, kind: MergeKind, out: usize, n: usize },
    HelperLeftLen { n: u64 },
    HelperMaxLen { off: u64 },

    /// guts::ChunkState: hash chunk `data[off..off+len]` (<=1024) at counter, updates split by `cuts`
    GutsChunk { data: usize, off: usize, len: usize, counter: u64, cuts: Vec<u16>, is_root: bool, out: usize },
    GutsParent { l: usize, r: usize, is_root: bool, out: usize },

    DebugFmt { slot: usize, pretty: bool },
    Zeroize { slot: usize },

    /// cancellation point marker (client abandons the hasher here): no-op at exec
    Cancel,

    // ---- b3sum as a process in a sandbox directory (C12 / C13) and special files (C11) ----
    CliFile { path_hex: String, data: usize },
    /// 0 delete, 1 modify content, 2 truncate, 3 replace by a directory
    CliFsFault { path_hex: String, kind: u8 },
    CliHash { paths: Vec<String>, flags: CliFlags, stdin: Option<usize>, save: Option<usize> },
    CliDamage { cf: usize, kind: Damage },
    CliCheck { cfs: Vec<usize>, flags: CliFlags, quiet: bool, via_stdin: bool },
    /// in-process: format the line b3sum prints for this path, parse it back
    PathRoundTrip { path_hex: String, tag: bool, crlf: bool },
    /// in-process: every single-character mutation of the line for this path
    ParseMutations { path_hex: String, tag: bool, crlf: bool },
    /// in-process: one explicit line
    ParseLine { line_hex: String },
    /// update_mmap / update_mmap_rayon / update_reader(File) on a special file kind
    FileKinds { kind: u8 },
    /// a child process hashes a file while one system call on that file fails (strace -e inject=):
    /// target 0 update_mmap, 1 update_mmap_rayon, 2 update_reader(File), 3 b3sum, 4 b3sum --no-mmap;
    /// syscall 0 mmap, 1 lseek, 2 read; errno index; `when` = which matching call fails
    SysFault { target: u8, data: usize, syscall: u8, errno: u8, when: u32 },

    /// one direct kernel call with guard-placed buffers and register sentinels (C07)
    Kernel { k: usize, a: KArgs },

    // ---- C library node ----
    CInit { slot: usize, flavour: u8, mode: Mode, raw: bool },
    CUpdate { c: usize, data: usize, off: usize, len: usize, tbb: Option<JoinPolicy> },
    CFinalize { c: usize, seek: Option<u64>, out_len: usize },
    /// b3sum on a path whose stat size says nothing about its contents: kind 0 /proc/version, 1 a pipe opened by
    /// path (/dev/stdin)
    CliSpecial { kind: u8, flags: CliFlags, data: usize },
    /// a sparse file of 2^32 + extra bytes (random head and tail, a hole between) hashed by path:
    /// via 0 update_mmap, 1 update_mmap_rayon (16 threads), 2 update_reader(File)
    HugeFile { extra: u32, seed: u64, via: u8 },
    /// one blake3_hasher_update call with input_len = 2^32 + extra (a read-only zero mapping between inaccessible
    /// pages), then finalize; compared with the Rust crate fed the same bytes in pieces. The slot is dropped afterwards.
    CUpdateHuge { c: usize, extra: u32 },
    /// finalize with out_len = 2^32 + extra into a virtual window (one small memfd mapped over and over, guard
    /// page behind it): size_t arithmetic above 32 bits; judged by the memory-safety monitors only
    CFinalizeHuge { c: usize, seek: Option<u64>, extra: u32 },
    CReset { c: usize },
    CCopy { c: usize, new: usize },
    CSetMask { mask: u32 },
}

impl Op {
    pub fn kind(&self) -> &'static str {
        match self {
            Op::Kernel { .. } => "Kernel",
            Op::CliFile { .. } => "CliFile",
            Op::CliFsFault { .. } => "CliFsFault",
            Op::CliHash { .. } => "CliHash",
            Op::CliDamage { .. } => "CliDamage",
            Op::CliCheck { .. } => "CliCheck",
            Op::PathRoundTrip { .. } => "PathRoundTrip",
            Op::ParseMutations { .. } => "ParseMutations",
            Op::ParseLine { .. } => "ParseLine",
            Op::FileKinds { .. } => "FileKinds",
            Op::SysFault { .. } => "SysFault",
            Op::NewHasher { .. } => "NewHasher",
            Op::Absorb { .. } => "Absorb",
            Op::Count { .. } => "Count",
            Op::Finalize { .. } => "Finalize",
            Op::FinalizeXof { .. } => "FinalizeXof",
            Op::ConcurrentFinalize { .. } => "ConcurrentFinalize",
            Op::ParallelRayon { .. } => "ParallelRayon",
            Op::FinalizeNonRoot { .. } => "FinalizeNonRoot",
            Op::SetOffset { .. } => "SetOffset",
            Op::Reset { .. } => "Reset",
            Op::CloneH { .. } => "CloneH",
            Op::CloneFromH { .. } => "CloneFromH",
            Op::DropSlot { .. } => "DropSlot",
            Op::Send { .. } => "Send",
            Op::Recv { .. } => "Recv",
            Op::Read { .. } => "Read",
            Op::SetPosition { .. } => "SetPosition",
            Op::Seek { .. } => "Seek",
            Op::Position { .. } => "Position",
            Op::CloneR { .. } => "CloneR",
            Op::OneShot { .. } => "OneShot",
            Op::TraitOneShot { .. } => "TraitOneShot",
            Op::Merge { .. } => "Merge",
            Op::HelperLeftLen { .. } => "HelperLeftLen",
            Op::HelperMaxLen { .. } => "HelperMaxLen",
            Op::GutsChunk { .. } => "GutsChunk",
            Op::GutsParent { .. } => "GutsParent",
            Op::DebugFmt { .. } => "DebugFmt",
            Op::Zeroize { .. } => "Zeroize",
            Op::Cancel => "Cancel",
            Op::CInit { .. } => "CInit",
            Op::CUpdate { .. } => "CUpdate",
            Op::CFinalize { .. } => "CFinalize",
            Op::CFinalizeHuge { .. } => "CFinalizeHuge",
            Op::CUpdateHuge { .. } => "CUpdateHuge",
            Op::HugeFile { .. } => "HugeFile",
            Op::CliSpecial { .. } => "CliSpecial",
            Op::CReset { .. } => "CReset",
            Op::CCopy { .. } => "CCopy",
            Op::CSetMask { .. } => "CSetMask",
        }
    }
}

#[derive(Serialize, Deserialize, Clone, Debug, PartialEq, Default)]
pub struct CliFlags {
    /// data index whose bytes are piped to stdin as the key (any length; only 32 is valid)
    #[serde(default)]
    pub keyed: Option<usize>,
    /// data index of the context
    #[serde(default)]
    pub derive: Option<usize>,
    #[serde(default)]
    pub length: Option<u64>,
    #[serde(default)]
    pub seek: Option<u64>,
    #[serde(default)]
    pub no_mmap: bool,
    #[serde(default)]
    pub num_threads: Option<u8>,
    #[serde(default)]
    pub raw: bool,
    #[serde(default)]
    pub no_names: bool,
    #[serde(default)]
    pub tag: bool,
    /// an extra flag that clap must reject in this combination (e.g. "--tag" with --check)
    #[serde(default)]
    pub bogus: Option<String>,
    /// deliver stdin in two pieces, split at this byte
    #[serde(default)]
    pub stdin_split: Option<u8>,
}

#[derive(Serialize, Deserialize, Clone, Debug, PartialEq, Default)]
pub struct KArgs {
    /// number of inputs (hash_many) or output blocks (xof_many)
    pub n: usize,
    pub blocks16: bool,
    pub counter: u64,
    pub incr: bool,
    pub flags: u8,
    pub fs: u8,
    pub fe: u8,
    pub block_len: u8,
    /// 2 bits per buffer: where it sits relative to an inaccessible page
    pub places: u32,
    pub seed: u64,
}

#[derive(Serialize, Deserialize, Clone, Debug, PartialEq)]
pub enum Damage {
    Crlf,
    /// edit 0 substitute, 1 insert, 2 delete; position counted in chars of the line
    Line { line: usize, pos: usize, edit: u8, ch: String },
    AppendLine { text_hex: String },
    /// a copy of line `line` appended with `suffix` added to its file name ("/" or "/." after a regular file: the
    /// same bytes could be read through no such path)
    DupWithSuffix { line: usize, suffix_hex: String },
    /// the whole checkfile repeated n times (long checkfiles: reader buffer boundaries fall anywhere in a line)
    RepeatSelf { n: usize },
    /// the lines of another saved checkfile appended (a checkfile mixing --tag and plain lines)
    Concat { other: usize },
    /// n copies of one line (the failure count of a --check run reaches and passes 256, 65536)
    AppendLines { text_hex: String, n: usize },
    TruncateBytes { n: usize },
    InvalidUtf8 { at: usize },
    DropFinalNewline,
}

#[derive(Serialize, Deserialize, Clone, Debug, PartialEq)]
pub struct Violation {
    pub property: String,
    pub class: String,
    pub task: usize,
    pub op: usize,
    pub op_kind: String,
    pub detail: String,
}

#[derive(Serialize, Deserialize, Clone, Debug)]
pub struct ReplayFile {
    pub property: String,
    pub engine: String,
    pub flavour: String,
    pub plan: Plan,
    pub violation: Violation,
    pub trace_digest: String,
    /// for config-divergence replays: the two levels whose results differ
    #[serde(default)]
    pub levels: Vec<Level>,
    /// runs to execute first in the same process (only when the violation depends on process history)
    #[serde(default)]
    pub prelude: Vec<Plan>,
}
