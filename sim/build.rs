// Builds the C library from the repository's working tree (c/), twice, with every external
// symbol renamed by -D so both flavours coexist with the blake3 crate's own kernels:
//   ca_* = hand-written assembly kernels,  ci_* = C intrinsics kernels.
// -DBLAKE3_TESTING (g_cpu_features settable), -DBLAKE3_USE_TBB (the join seam, implemented by the
// harness in Rust), -DBLAKE3_TEAM_BLAKE3_VERIF (hook H4).
use std::path::PathBuf;

const KERNEL_SYMS: &[&str] = &[
    "blake3_compress_in_place_portable", "blake3_compress_xof_portable", "blake3_hash_many_portable",
    "blake3_compress_in_place_sse2", "blake3_compress_xof_sse2", "blake3_hash_many_sse2",
    "blake3_compress_in_place_sse41", "blake3_compress_xof_sse41", "blake3_hash_many_sse41",
    "blake3_hash_many_avx2",
    "blake3_compress_in_place_avx512", "blake3_compress_xof_avx512", "blake3_hash_many_avx512", "blake3_xof_many_avx512",
];
const CORE_SYMS: &[&str] = &[
    "blake3_version", "blake3_hasher_init", "blake3_hasher_init_keyed", "blake3_hasher_init_derive_key",
    "blake3_hasher_init_derive_key_raw", "blake3_hasher_update", "blake3_hasher_update_tbb", "blake3_hasher_finalize",
    "blake3_hasher_finalize_seek", "blake3_hasher_reset", "blake3_compress_in_place", "blake3_compress_xof",
    "blake3_xof_many", "blake3_hash_many", "blake3_simd_degree", "blake3_compress_subtree_wide",
    "blake3_compress_subtree_wide_join_tbb", "g_cpu_features", "get_cpu_features", "blake3_verif_yield_hook",
];

fn base(prefix: &str, cdir: &PathBuf) -> cc::Build {
    let mut b = cc::Build::new();
    b.include(cdir);
    b.warnings(false);
    b.opt_level(2);
    b.define("BLAKE3_TESTING", None);
    b.define("BLAKE3_USE_TBB", None);
    b.define("BLAKE3_TEAM_BLAKE3_VERIF", None);
    for s in KERNEL_SYMS.iter().chain(CORE_SYMS.iter()) {
        b.define(s, Some(format!("{prefix}_{s}").as_str()));
        // the unix .S files also define underscore-prefixed aliases (macOS naming)
        b.define(&format!("_{s}"), Some(format!("_{prefix}_{s}").as_str()));
    }
    b
}

fn main() {
    let repo = PathBuf::from(std::env::var("VERIF_REPO").unwrap_or_else(|_| "/repo".into()));
    let cdir = repo.join("c");
    println!("cargo::rustc-env=VERIF_B3SUM_MAIN={}", repo.join("b3sum/src/main.rs").display());
    println!("cargo::rerun-if-changed={}", repo.join("b3sum/src/main.rs").display());
    // The in-process parser family (c13-parse) calls private items of b3sum's main.rs. They are implementation
    // details: when a refactoring renames or reshapes them the harness must still build (the process-level
    // families remain), so the wrappers are compiled only if the expected items are there.
    println!("cargo::rustc-check-cfg=cfg(b3sum_private_api)");
    let main_rs = std::fs::read_to_string(repo.join("b3sum/src/main.rs")).unwrap_or_default();
    let flat: String = main_rs.split_whitespace().collect::<Vec<_>>().join(" ");
    let not_test_only = |sig: &str| flat.match_indices(sig).any(|(i, _)| !flat[..i].trim_end().ends_with("#[cfg(test)]"));
    let has_fields = |ty: &str, fields: &[&str]| {
        flat.find(&format!("struct {ty} {{")).map_or(false, |i| {
            let body = &flat[i..flat[i..].find('}').map_or(flat.len(), |e| i + e)];
            fields.iter().all(|f| body.contains(f))
        })
    };
    let ok = (not_test_only("fn parse_check_line(mut line: &str) -> anyhow::Result<ParsedCheckLine>") || not_test_only("fn parse_check_line(line: &str) -> anyhow::Result<ParsedCheckLine>"))
        && not_test_only("fn filepath_to_string(filepath: &Path) -> FilepathString")
        && has_fields("ParsedCheckLine", &["file_string: String", "is_escaped: bool", "file_path: PathBuf", "expected_hash: blake3::Hash"])
        && has_fields("FilepathString", &["filepath_string: String", "is_escaped: bool"]);
    if ok {
        println!("cargo::rustc-cfg=b3sum_private_api");
    } else {
        println!("cargo::warning=b3sum's private parser items were not found in the expected shape: the in-process c13-parse family is skipped");
    }
    println!("cargo::rerun-if-env-changed=VERIF_REPO");
    for f in std::fs::read_dir(&cdir).expect("c dir") {
        println!("cargo::rerun-if-changed={}", f.unwrap().path().display());
    }
    // the Windows-GNU assembly flavour (Win64 calling convention), assembled for ELF: `.section .rdata`
    // becomes `.section .rodata`; called from the harness through a Win64 trampoline
    {
        let mut k = base("win", &cdir);
        k.define("rdata", Some("rodata"));
        k.flag("-mavx512f").flag("-mavx512vl");
        for f in ["blake3_sse2_x86-64_windows_gnu.S", "blake3_sse41_x86-64_windows_gnu.S", "blake3_avx2_x86-64_windows_gnu.S", "blake3_avx512_x86-64_windows_gnu.S"] {
            k.file(cdir.join(f));
        }
        k.compile("b3c_win_kernels");
    }
    // blake3_avx2.c once more as a distributor may build it: with BLAKE3_NO_SSE41 (its leftover inputs then go to the
    // portable kernel instead of the SSE4.1 one); the only kernel source whose code depends on a BLAKE3_NO_* switch
    {
        let mut k = base("cn", &cdir);
        k.flag("-std=c11").flag("-mavx2");
        k.define("BLAKE3_NO_SSE41", None);
        k.file(cdir.join("blake3_avx2.c")).file(cdir.join("blake3_portable.c"));
        k.compile("b3c_cn_kernels");
    }
    for prefix in ["ca", "ci"] {
        let mut core = base(prefix, &cdir);
        core.flag("-std=c11");
        core.file(cdir.join("blake3.c")).file(cdir.join("blake3_dispatch.c")).file(cdir.join("blake3_portable.c"));
        core.compile(&format!("b3c_{prefix}_core"));
        if prefix == "ca" {
            let mut k = base(prefix, &cdir);
            k.flag("-mavx512f").flag("-mavx512vl");
            for f in ["blake3_sse2_x86-64_unix.S", "blake3_sse41_x86-64_unix.S", "blake3_avx2_x86-64_unix.S", "blake3_avx512_x86-64_unix.S"] {
                k.file(cdir.join(f));
            }
            k.compile("b3c_ca_kernels");
        } else {
            for (f, flags) in [
                ("blake3_sse2.c", vec!["-msse2"]),
                ("blake3_sse41.c", vec!["-msse4.1"]),
                ("blake3_avx2.c", vec!["-mavx2"]),
                ("blake3_avx512.c", vec!["-mavx512f", "-mavx512vl"]),
            ] {
                let mut k = base(prefix, &cdir);
                k.flag("-std=c11");
                for fl in flags {
                    k.flag(fl);
                }
                k.file(cdir.join(f));
                k.compile(&format!("b3c_ci_{}", f.trim_end_matches(".c")));
            }
        }
    }
}
